------------------------------ MODULE Fallback ------------------------------
(***************************************************************************)
(* The fallback chain of sigtools.signature (forged_signature), C07:       *)
(*    forger -> autoforwards hint -> automatic discovery -> plain signature *)
(* Each stage is a step; what the outside world answers at each stage is a  *)
(* nondeterministic choice (Env): the object has no forger / the forger     *)
(* returns None / a signature / raises; source is unavailable / unparsable; *)
(* the walker meets an AST it does not understand; the callee cannot be     *)
(* resolved; forwards or merge raise; inspect.signature itself succeeds or  *)
(* raises ValueError / TypeError.  The catch rules are the code's:          *)
(*   CatchAuto = which exception classes of the discovery stage are turned  *)
(*   into the fallback (the code: UnknownForwards only -- but get_ast and   *)
(*   forward_signatures map their own failures to UnknownForwards first).   *)
(* Invariant C07_Total: in every terminal state the result is an upgraded   *)
(* signature iff inspect.signature yields one, otherwise the same exception *)
(* class; only a DECLARED forger may surface a ValueError.                  *)
(***************************************************************************)
EXTENDS Naturals, FiniteSets, TLC

CONSTANTS SourceFailuresMapped    \* BOOLEAN: failures of source loading / parsing / unexpected AST shapes become UnknownForwards (the repaired code)

ForgerOut  == {"absent", "none", "sig", "ValueError"}
HintOut    == {"absent", "none", "sig", "UnknownForwards"}
AutoOut    == {"nostar", "nosource", "SyntaxError", "oddAST", "unresolvable", "calleeValueError", "forwardsValueError", "mergeIncompatible", "sig"}
InspectOut == {"sig", "ValueError", "TypeError"}

VARIABLES stage, env, result
vars == <<stage, env, result>>
Init == /\ stage = "forger" /\ result = "-"
        /\ env \in [forger : ForgerOut, hint : HintOut, auto : AutoOut, inspect : InspectOut, useAuto : BOOLEAN]

Finish(r) == stage' = "done" /\ result' = r /\ UNCHANGED env
Forger == /\ stage = "forger"
          /\ IF env.forger = "sig" THEN Finish("sig")
             ELSE IF env.forger = "ValueError" THEN Finish("ValueError")
             ELSE stage' = (IF env.useAuto THEN "hint" ELSE "plain") /\ UNCHANGED <<env, result>>
Hint == /\ stage = "hint"
        /\ IF env.hint = "sig" THEN Finish("sig")
           ELSE stage' = "auto" /\ UNCHANGED <<env, result>>          \* absent / None / UnknownForwards: go on
(* automatic discovery on the function itself: reads its own signature first (the inspect machinery) *)
Auto == /\ stage = "auto"
        /\ IF env.inspect # "sig" THEN Finish(env.inspect)              \* the own signature cannot be read: that exception surfaces, as from inspect
           ELSE CASE env.auto = "sig" -> Finish("sig")
                  [] env.auto \in {"nostar", "nosource", "unresolvable", "calleeValueError", "forwardsValueError", "mergeIncompatible"}
                        -> stage' = "plain" /\ UNCHANGED <<env, result>>          \* mapped to UnknownForwards
                  [] env.auto \in {"SyntaxError", "oddAST"}
                        -> IF SourceFailuresMapped THEN stage' = "plain" /\ UNCHANGED <<env, result>>
                           ELSE Finish(IF env.auto = "oddAST" THEN "AttributeError" ELSE "SyntaxError")
Plain == /\ stage = "plain" /\ Finish(env.inspect)
Next == Forger \/ Hint \/ Auto \/ Plain
Spec == Init /\ [][Next]_vars /\ WF_vars(Next)

C07_Total == stage = "done" =>
   \/ result = env.inspect                                              \* a signature where inspect gives one, else the same exception
   \/ (result = "sig" /\ env.inspect = "sig")
   \/ (result = "sig" /\ (env.forger = "sig" \/ env.hint = "sig"))     \* a declared signature does not need the plain one
   \/ (result = "ValueError" /\ env.forger = "ValueError")              \* a declaration that cannot be honoured
Terminates == <>(stage = "done")
=============================================================================
