------------------------------ MODULE Trace_Obj ------------------------------
(***************************************************************************)
(* Trace specification for C14.  Events recorded from the real objects:    *)
(*  "cmp"     an ordered pair (x, y) of the menagerie: x == y, y == x,      *)
(*            x != y, y != x (True / False / "raise:<exc>" / "nonbool"),    *)
(*            hash(x), hash(y) (ok + an id per distinct hash value), and    *)
(*            the abstract objects x, y (ObjModel) known by construction    *)
(*  "drop"    one signature: str / bind / bind_partial for every call shape *)
(*            next to the same on a plain inspect.Signature built from the  *)
(*            same parameters (both real), and the projection for PyBind   *)
(*  "replace" one replace() call: what the result kept / took over          *)
(***************************************************************************)
EXTENDS PyBind, Json, IOUtils, TLC, TLCExt

TraceLog == ndJsonDeserialize(IOEnv.TRACE_FILE)
Clause(bad, name) == IF bad THEN {name} ELSE {}
Rng(q) == {q[i] : i \in DOMAIN q}
VARIABLE l

SpecEq(x, y) == /\ x.fam = y.fam /\ x.fam # "other"
                /\ x.data = y.data
                /\ (x.up /\ y.up) => x.uann = y.uann
IsBool(v) == v \in {"True", "False"}

CmpV(e) ==
  LET x == e.x  y == e.y
      all4 == {e.eq_xy, e.eq_yx, e.ne_xy, e.ne_yx}
      ofInterest == x.up \/ y.up              \* pairs of two foreign / plain objects are Python's own business
      decided == x.decided /\ y.decided       \* the expected answer is known by construction (one-field variants of sources are not)
  IN IF ~ofInterest THEN {} ELSE
       Clause(\E v \in all4 : ~IsBool(v), "C14_ComparisonRaisesOrIsNotBool")
  \cup Clause(IsBool(e.eq_xy) /\ IsBool(e.eq_yx) /\ e.eq_xy # e.eq_yx, "C14_EqualityNotSymmetric")
  \cup Clause(IsBool(e.eq_xy) /\ IsBool(e.ne_xy) /\ e.eq_xy = e.ne_xy, "C14_NeDoesNotNegateEq")
  \cup Clause(e.same_object /\ x.fam # "other" /\ e.eq_xy # "True", "C14_EqualityNotReflexive")
  (* two retrievals of ONE function (or their first parameters), whatever its default and annotation values do when compared *)
  \cup Clause(e.twins /\ (e.eq_xy # "True" \/ e.ne_xy # "False"), "C14_SameFunctionRetrievedTwiceDiffers")
  \cup Clause(decided /\ IsBool(e.eq_xy) /\ (e.eq_xy = "True") # SpecEq(x, y), "C14_EqualityDiffersFromData")
  \cup Clause(e.eq_xy = "True" /\ e.hx.ok /\ e.hy.ok /\ e.hx.id # e.hy.id, "C14_EqualObjectsHashDifferently")
  \cup Clause(x.up /\ x.fam # "other" /\ e.hx.ok # e.hx_plain_ok, "C14_HashableIffPlainCounterpartIs")

DropV(e) ==
       Clause(e.str_up # e.str_plain, "C14_StrDiffersFromPlain")
  \cup Clause(\E i \in DOMAIN e.calls : e.calls[i].up # e.calls[i].plain, "C14_BindDiffersFromPlain")
  \cup Clause(\E i \in DOMAIN e.calls : e.calls[i].pup # e.calls[i].pplain, "C14_BindPartialDiffersFromPlain")
  \cup Clause(\E i \in DOMAIN e.calls : LET c == [np |-> e.calls[i].np, kw |-> Rng(e.calls[i].kw)] IN
                 ~PoKwClash(e.ps, c) /\ e.calls[i].up.ok # Accepts(e.ps, c), "C14_BindAcceptanceVsBindingOracle")

ReplaceV(e) ==
       Clause(~e.type_kept, "C14_ReplaceLosesUpgradedType")
  \cup Clause(\E k \in DOMAIN e.kept : ~e.kept[k], "C14_ReplaceDropsWhatWasNotOverridden")
  \cup Clause(\E k \in DOMAIN e.taken : ~e.taken[k], "C14_ReplaceIgnoresOverride")

Verdict(e) == CASE e.op = "cmp" -> CmpV(e) [] e.op = "drop" -> DropV(e) [] e.op = "replace" -> ReplaceV(e) [] OTHER -> {}
Init == l = 1
Next == /\ l <= Len(TraceLog)
        /\ LET e == TraceLog[l] IN \A c \in Verdict(e) : PrintT("FAIL|" \o e.tid \o "|" \o c)
        /\ l' = l + 1
Spec == Init /\ [][Next]_l
TraceAccepted == TLCGet("stats").diameter = Len(TraceLog) + 1
=============================================================================
