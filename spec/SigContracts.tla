---------------------------- MODULE SigContracts ----------------------------
(***************************************************************************)
(* The algebra properties (C01 C02 C03 C08 C09 C10 C15 C16a C19) as        *)
(* *relations* between the inputs of an operation and its observed         *)
(* outcome.  They say what the property statements say and no more; they   *)
(* do not mention the reference model in SigAlgebra.  Each operator        *)
(* returns the set of names of the clauses that FAIL (total verdicts).     *)
(*                                                                         *)
(* ins  : sequence of abstract signatures [ps, src, depth]                 *)
(* out  : [tag |-> "sig", ps, src, depth, ...] or [tag |-> "incompat"] /   *)
(*        "valueerror" / "other"                                           *)
(***************************************************************************)
EXTENDS PyBind

Foreign == "zz"
Rng(q) == {q[i] : i \in DOMAIN q}
PsOf(ins) == [i \in DOMAIN ins |-> ins[i].ps]
Clause(bad, name) == IF bad THEN {name} ELSE {}

(* ----------------------------------------------------------------- merge *)
C01_Sound(ips, out, Calls) ==
  LET acc == AcceptSet(out, Calls)
      rc == RoleConsistent(ips)
  IN \A c \in acc :
       /\ (c.kw = {} \/ c.np = 0) => AllAccept(ips, c)
       /\ (rc /\ NonColliding(c, out, ips)) => AllAccept(ips, c)

C09_Exact(ips, out, Calls) ==
  (NameAligned(ips) /\ RoleConsistent(ips)) =>
     \A c \in Calls : NonColliding(c, out, ips) => (Accepts(out, c) <=> AllAccept(ips, c))
KwOkEverywhere(ips, c) == \A k \in c.kw : \A i \in DOMAIN ips : k \in AllNames(ips[i]) => k \in KwPassable(ips[i])
C09_RaiseIff(ips, raised, Calls) ==
  (NameAligned(ips) /\ RoleConsistent(ips)) =>
     (raised <=> ~\E c \in Calls : KwOkEverywhere(ips, c) /\ AllAccept(ips, c))

MergeFails(ins, out) ==
  LET ips == PsOf(ins)  Calls == CallsFor(ips, Foreign, 0) IN
  IF out.tag = "sig" THEN
       Clause(~C01_Sound(ips, out.ps, Calls), "C01_Sound")
  \cup Clause(~C09_Exact(ips, out.ps, Calls), "C09_Exact")
  \cup Clause(~C09_RaiseIff(ips, FALSE, Calls), "C09_RaiseIff")
  ELSE IF out.tag = "incompat" THEN Clause(~C09_RaiseIff(ips, TRUE, Calls), "C09_RaiseIff")
  ELSE {}

(* ----------------------------------------------------------------- embed *)
(* what CPython leaves for the forwarded star parameters of outer *)
Surplus(o, c, uva, uvk) ==
  [np |-> IF HasVar(o) /\ uva THEN (IF c.np > Len(Posi(o)) THEN c.np - Len(Posi(o)) ELSE 0) ELSE 0,
   kw |-> IF HasVkw(o) /\ uvk THEN {k \in c.kw : k \notin KwPassable(o)} ELSE {}]
Comp(o, i, uva, uvk, c) == Accepts(o, c) /\ Accepts(i, Surplus(o, c, uva, uvk))
(* outer has defaulted positional parameters that end up followed by inner positional parameters *)
DefaultedOuterPosFollowed(o, out) ==
  LET od == {o[j].n : j \in {x \in PosIdx(o) : o[x].d}}
      rp == Posi(out)
      at == {x \in DOMAIN rp : rp[x].n \in od}
  IN od # {} /\ (at = {} \/ \E x \in DOMAIN rp : (\A y \in at : x > y) /\ rp[x].n \notin NamedNames(o))      \* (named parameters of outer: an inner parameter may be SPELLED like outer's forwarded star)
C02_Sound(o, i, uva, uvk, out, Calls) ==
  \A c \in Calls : (Accepts(out, c) /\ NonColliding(c, out, <<o, i>>)) => Comp(o, i, uva, uvk, c)
C02_Exact(o, i, uva, uvk, out, Calls) ==
  ~DefaultedOuterPosFollowed(o, out) =>
     \A c \in Calls : (Comp(o, i, uva, uvk, c) /\ NonColliding(c, out, <<o, i>>)) => Accepts(out, c)
C02_RaiseOnlyWhen(o, i, uva, uvk, Calls) ==
  (NamedNames(o) \cap NamedNames(i) # {}) \/ ~\E c \in Calls : Comp(o, i, uva, uvk, c)

EmbedFails(ins, fl, out) ==
  LET o == ins[1].ps  i == ins[2].ps  Calls == CallsFor(<<o, i>>, Foreign, 0) IN
  IF out.tag = "sig" THEN
       Clause(~C02_Sound(o, i, fl.uva, fl.uvk, out.ps, Calls), "C02_Sound")
  \cup Clause(~C02_Exact(o, i, fl.uva, fl.uvk, out.ps, Calls), "C02_Exact")
  ELSE IF out.tag = "incompat" THEN Clause(~C02_RaiseOnlyWhen(o, i, fl.uva, fl.uvk, Calls), "C02_RaiseOnlyWhen")
  ELSE {}

(* ------------------------------------------------------------------ mask *)
Shift(c, n, names) == [np |-> c.np + n, kw |-> c.kw \cup names]
C03_Exact(sig, n, names, out, Calls) ==
  \A c \in Calls : (c.kw \cap names = {} /\ NonColliding(c, out, <<sig>>)) =>
        (Accepts(out, c) <=> Accepts(sig, Shift(c, n, names)))
C03_RaiseIff(sig, n, names, raised, Calls) ==
  raised <=> ~\E c \in Calls : c.kw \cap names = {} /\ Accepts(sig, Shift(c, n, names))
(* hide flags only ever remove parameters, and remove all of the kinds they name *)
HiddenKind(p, ha, hk, hva, hvk) ==
  \/ (ha /\ p.k \in {"po", "pok", "var"})
  \/ (hk /\ p.k \in {"pok", "kwo", "vkw"})
  \/ (hva /\ p.k = "var")
  \/ (hvk /\ p.k = "vkw")
C03_HideOnlyRemoves(unhidden, out) ==
  \E f \in [DOMAIN out -> DOMAIN unhidden] :
      /\ \A x, y \in DOMAIN out : x < y => f[x] < f[y]
      /\ \A x \in DOMAIN out : out[x] = unhidden[f[x]]
C03_HideRemovesAll(out, ha, hk, hva, hvk) == \A x \in DOMAIN out : ~HiddenKind(out[x], ha, hk, hva, hvk)
(* every call the result accepts is accepted by sig for some choice of the hidden arguments *)
C03_HideSound(sig, n, names, out, Calls, CallsBig) ==
  \A c \in Calls : (c.kw \cap names = {} /\ Accepts(out, c) /\ NonColliding(c, out, <<sig>>)) =>
     \E h \in CallsBig : h.np >= c.np + n /\ (c.kw \cup names) \subseteq h.kw /\ Accepts(sig, h)

MaskFails(ins, fl, out) ==
  LET sig == ins[1].ps
      names == Rng(fl.names)
      Calls == CallsFor(<<sig>>, Foreign, 0)
      CallsBig == CallsFor(<<sig>>, Foreign, fl.n + 1)
      noflags == ~(fl.ha \/ fl.hk \/ fl.hva \/ fl.hvk)
      poNamed == names \cap PoNames(sig) # {}
  IN IF poNamed THEN {}                      \* excluded by the property (version-dependent)
     ELSE IF noflags THEN
        (IF out.tag = "sig" THEN Clause(~C03_Exact(sig, fl.n, names, out.ps, Calls), "C03_Exact")
                                 \cup Clause(~C03_RaiseIff(sig, fl.n, names, FALSE, CallsBig), "C03_RaiseIff")
         (* (hide_args hides the positional-or-keyword parameters the n arguments did not bind; they may still be named) *)
         ELSE IF out.tag = "valueerror"
              THEN Clause(~C03_RaiseIff(sig, fl.n, names, TRUE, CallsBig), "C03_RaiseIff")
         ELSE {})
     ELSE
        (IF out.tag = "sig" THEN
              Clause(~C03_HideRemovesAll(out.ps, fl.ha, fl.hk, fl.hva, fl.hvk), "C03_HideRemovesAll")
         \cup Clause(~C03_HideSound(sig, fl.n, names, out.ps, Calls, CallsBig), "C03_HideSound")
         (* the hide flags only remove parameters from the result: whether mask raises is decided by n and the names alone *)
         \cup Clause(~C03_RaiseIff(sig, fl.n, names, FALSE, CallsBig), "C03_RaiseIff")
         (* (hide_args hides the positional-or-keyword parameters the n arguments did not bind; they may still be named) *)
         ELSE IF out.tag = "valueerror"
              THEN Clause(~C03_RaiseIff(sig, fl.n, names, TRUE, CallsBig), "C03_RaiseIff")
         ELSE {})

(* --------------------------------------------------------------- partial *)
(* signature(partial(f, *nb, **kb)) accepts exactly what the partial object accepts: call keywords override bound ones *)
PartialAccepts(f, nb, kb, c) == Accepts(f, [np |-> c.np + nb, kw |-> c.kw \cup kb])
C19_Exact(f, nb, kb, out, Calls) ==
  \A c \in Calls : NonColliding(c, out, <<f>>) => (Accepts(out, c) <=> PartialAccepts(f, nb, kb, c))

(* ------------------------------------------------------------ provenance *)
Declaring(ins, n) == UNION {IF n \in AllNames(ins[i].ps) THEN DOMAIN ins[i].depth ELSE {} : i \in DOMAIN ins}
DeclaringNamed(ins, n) == UNION {IF n \in NamedNames(ins[i].ps) THEN DOMAIN ins[i].depth ELSE {} : i \in DOMAIN ins}
(* well-formedness that needs no knowledge of the inputs *)
SourcesWF(o) ==
  LET names == AllNames(o.ps) IN
       Clause(~o.hasdepths, "C08_HasDepths")
  \cup Clause(DOMAIN o.src # names, "C08_KeysExact")
  \cup Clause(\E n \in DOMAIN o.src : o.src[n] = <<>>, "C08_NonEmpty")
  \cup Clause(\E n \in DOMAIN o.src : Cardinality(Rng(o.src[n])) # Len(o.src[n]), "C08_NoDup")
  \cup Clause(\E n \in DOMAIN o.src : ~(Rng(o.src[n]) \subseteq DOMAIN o.depth), "C08_HaveDepth")
(* relative to the inputs of an algebra operation whose inputs are plain retrievals (one callable each) *)
SourcesVsInputs(op, ins, fl, o) ==
  LET ips == PsOf(ins)
      sharedNamed == \E i, j \in DOMAIN ins : i < j /\ NamedNames(ips[i]) \cap NamedNames(ips[j]) # {}
      consistent == IF op = "merge" THEN RoleConsistent(ips) ELSE ~sharedNamed
  IN   Clause(\E n \in DOMAIN o.src : ~(Rng(o.src[n]) \subseteq Declaring(ins, n)), "C08_Declares")
  \cup Clause(op \in {"merge", "embed", "forwards"} /\ consistent
                /\ \E j \in Named(o.ps) : o.ps[j].n \in DOMAIN o.src /\ Rng(o.src[o.ps[j].n]) # DeclaringNamed(ins, o.ps[j].n),
              "C08_NamedExact")
  \cup Clause(op \in {"embed", "forwards"} /\ ~(\A f \in DOMAIN ins[1].depth : f \in DOMAIN o.depth /\ o.depth[f] = 0), "C08_OuterDepth0")
  \cup Clause(op \in {"embed", "forwards"} /\ \E k \in 2..Len(ins) :
                 ~(\A f \in DOMAIN ins[k].depth \ UNION {DOMAIN ins[j].depth : j \in 1..(k-1)} :
                        f \in DOMAIN o.depth => o.depth[f] = k - 1), "C08_InnerDepth")
  \cup Clause(op \in {"merge", "mask"} /\ ~(\A f \in DOMAIN o.depth : o.depth[f] = 0), "C08_FlatDepth0")
  \cup Clause(~(DOMAIN o.depth \subseteq UNION {DOMAIN ins[i].depth : i \in DOMAIN ins}), "C08_DepthOnlyInputs")

(* ---------------------------------------------------------- C15 / C16(a) *)
C15Fails(op, ins, out) ==
       Clause(out.tag \notin {"sig", "incompat", "valueerror"}, "C15_OnlyValueError")
  \cup Clause(out.tag = "sig" /\ ~ValidSig(out.ps), "C15_ValidSig")
  \cup Clause(out.tag = "sig" /\ ~out.upgraded, "C15_AllUpgraded")
  \cup Clause(out.tag = "sig" /\ ~out.hasdepths, "C15_HasDepths")
  \cup Clause(op \in {"merge", "embed"} /\ out.tag = "valueerror" /\ RoleConsistent(PsOf(ins)), "C15_IncompatOnConsistent")

(* ---------------------------------------------------------- C10 metadata *)
(* the input parameter an output parameter "stands for": the same-named non-star parameter of the input if it   *)
(* has one, otherwise (positional result parameters only) the input's positional parameter at the same index    *)
PosIndexOf(ps, i) == Cardinality({j \in PosIdx(ps) : j <= i})
StandsFor(ips, outps, x) ==
  LET p == outps[x] IN
  {<<i, j>> \in UNION {{<<i, j>> : j \in Named(ips[i])} : i \in DOMAIN ips} :
      IF p.n \in NamedNames(ips[i]) THEN ips[i][j].n = p.n
      ELSE p.k \in {"po", "pok"} /\ ips[i][j].k \in {"po", "pok"} /\ PosIndexOf(ips[i], j) = PosIndexOf(outps, x)}
KindOrder(a, b) == a = b \/ (a = "pok" /\ b \in {"po", "kwo"})
C10_MergeMeta(ips, outps) ==
  LET bad(x) ==
        LET p == outps[x]
            reps == {ips[ij[1]][ij[2]] : ij \in StandsFor(ips, outps, x)}
            dvs == {q.dv : q \in reps}
            ans == {q.an : q \in reps} \ {0}
        IN IF p.k \in {"var", "vkw"} \/ reps = {} THEN {}
           ELSE Clause(p.d /\ \E q \in reps : ~q.d, "C10_OptionalOnlyIfAll")
           \cup Clause(p.d /\ (\A q \in reps : q.d) /\ p.dv # (IF Cardinality(dvs) = 1 THEN CHOOSE v \in dvs : TRUE ELSE 1), "C10_DefaultValue")
           \cup Clause(p.an # (IF Cardinality(ans) = 1 THEN CHOOSE v \in ans : TRUE ELSE 0), "C10_Annotation")
           \cup Clause(\E q \in reps : q.n = p.n /\ ~KindOrder(q.k, p.k), "C10_KindOnlyRestricts")
  IN UNION {bad(x) : x \in DOMAIN outps}
(* positional parameters keep the relative order they have in each input *)
C10_PosOrder(ips, outps) ==
  \A i \in DOMAIN ips :
     LET common == {n \in {Posi(outps)[x].n : x \in DOMAIN Posi(outps)} : n \in {Posi(ips[i])[x].n : x \in DOMAIN Posi(ips[i])}}
         order(ps) == SelectSeq([x \in DOMAIN Posi(ps) |-> Posi(ps)[x].n], LAMBDA n : n \in common)
     IN order(outps) = order(ips[i])
(* embed / forwards: outer before inner within each kind; every surviving parameter keeps default value and     *)
(* annotation except that outer positional defaults may be cleared, and only when a required inner positional    *)
(* parameter follows them                                                                                          *)
C10_EmbedMeta(o, i, outps) ==
  LET idx(n) == CHOOSE x \in DOMAIN outps : outps[x].n = n
      inOut(ps) == {n \in NamedNames(ps) : n \in NamedNames(outps)}
      reqInnerPosAfter(x) == \E y \in DOMAIN outps : y > x /\ outps[y].k \in {"po", "pok"} /\ ~outps[y].d
                                                   /\ outps[y].n \in NamedNames(i) /\ outps[y].n \notin NamedNames(o)
  IN   Clause(\E a \in inOut(o), b \in inOut(i) \ NamedNames(o) :
                 KindRank(outps[idx(a)].k) = KindRank(outps[idx(b)].k) /\ idx(a) > idx(b), "C10_OuterBeforeInner")
  \cup Clause(\E n \in inOut(o) : ~KindOrder(ParamOf(o, n).k, outps[idx(n)].k), "C10_KindOnlyRestricts")
  \cup Clause(\E n \in inOut(i) \ NamedNames(o) : ~KindOrder(ParamOf(i, n).k, outps[idx(n)].k), "C10_KindOnlyRestricts")
  (* ... and only as far as REQUIRED: an outer regular parameter becomes positional-only only in front of an inner positional-only one *)
  \cup Clause(\E n \in inOut(o) : ParamOf(o, n).k = "pok" /\ outps[idx(n)].k = "po"
                 /\ ~\E y \in DOMAIN outps : y > idx(n) /\ outps[y].k = "po" /\ outps[y].n \in NamedNames(i) \ NamedNames(o),
              "C10_KindRestrictedWithoutNeed")
  \cup Clause(\E n \in inOut(o) : LET p == ParamOf(o, n)  q == outps[idx(n)] IN
                 q.an # p.an \/ (q.d /\ (~p.d \/ q.dv # p.dv))
                 \/ (p.d /\ ~q.d /\ ~(p.k \in {"po", "pok"} /\ reqInnerPosAfter(idx(n)))), "C10_OuterMetaKept")
  \cup Clause(\E n \in inOut(i) \ NamedNames(o) : LET p == ParamOf(i, n)  q == outps[idx(n)] IN
                 q.an # p.an \/ q.d # p.d \/ q.dv # p.dv, "C10_InnerMetaKept")
(* mask: survivors keep everything but may turn keyword-only *)
C10_MaskMeta(sig, outps) ==
  Clause(\E x \in DOMAIN outps : outps[x].n \in AllNames(sig) /\
            LET p == ParamOf(sig, outps[x].n) q == outps[x] IN
              ~KindOrder(p.k, q.k) \/ p.d # q.d \/ p.dv # q.dv \/ p.an # q.an, "C10_MaskMetaKept")
  \cup Clause(~C10_PosOrder(<<sig>>, outps), "C10_PosOrder")
=============================================================================
