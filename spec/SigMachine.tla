----------------------------- MODULE SigMachine -----------------------------
(***************************************************************************)
(* Model leg for the algebra family: a workspace of signatures on which    *)
(* the operations of SigAlgebra act.  Behaviours:                          *)
(*   Load(ps)  -- put a fresh universe signature (own callable id, depth 0)*)
(*                into the next register, until Arity registers are full   *)
(*   DoOp      -- apply the operation named by Op to the registers, with   *)
(*                every admissible flag choice; the result goes to `res`   *)
(* The properties are invariants over (regs, res) -- the same contract     *)
(* operators (SigContracts) that the trace leg evaluates on the real code. *)
(* An n-ary merge is a left fold: the D1 family of defects is a property   *)
(* of the accumulator carried between fold steps, visible at Arity = 3.    *)
(***************************************************************************)
EXTENDS SigUniverse, SigVerdict, TLC, Json

CONSTANTS Names, StarV, StarK, MaxNamed,
          Arity,       \* number of input registers
          Op,          \* "merge" | "embed" | "mask" | "forwards" | "partial"
          MaxN,        \* mask: largest num_args tried beyond the positional count
          MaxNamesLen, \* mask: longest names tuple
          HideFlags,   \* BOOLEAN: also explore the hide_* flags
          DVs, ANs     \* metadata universe (C10): default-value ids / annotation ids; DVs = {} means the plain universe

U == IF DVs = {} THEN Sigs(Names, StarV, StarK, MaxNamed) ELSE SigsMeta(Names, StarV, StarK, MaxNamed, DVs, ANs)

VARIABLES regs, fl, res
vars == <<regs, fl, res>>

None == [tag |-> "none"]
Flags0 == [n |-> 0, names |-> <<>>, uva |-> TRUE, uvk |-> TRUE, ha |-> FALSE, hk |-> FALSE, hva |-> FALSE, hvk |-> FALSE,
           partial |-> FALSE]

Fid(k) == "f" \o ToString(k)
Fresh(ps, k) == [ps |-> ps, src |-> [n \in AllNames(ps) |-> <<Fid(k)>>], depth |-> [f \in {Fid(k)} |-> 0], hasdepths |-> TRUE]

Init == regs = <<>> /\ fl = Flags0 /\ res = None

Load(ps) == /\ Len(regs) < Arity /\ res = None
            /\ regs' = Append(regs, Fresh(ps, Len(regs) + 1))
            /\ UNCHANGED <<fl, res>>

Sorted == [i \in DOMAIN regs |-> SortSig(regs[i])]
WithMeta(r) == IF r.tag = "sig" THEN [r EXCEPT !.tag = "sig"] @@ [hasdepths |-> TRUE, upgraded |-> TRUE] ELSE r

(* duplicate-free name tuples up to MaxNamesLen over the signature's names and a foreign one *)
NameTuples(ps) == UNION {InjSeqs(AllNames(ps) \cup {Foreign}, k) : k \in 0..MaxNamesLen}
FlagSets == IF HideFlags THEN [ha : BOOLEAN, hk : BOOLEAN, hva : BOOLEAN, hvk : BOOLEAN]
            ELSE {[ha |-> FALSE, hk |-> FALSE, hva |-> FALSE, hvk |-> FALSE]}

DoMerge == /\ Op = "merge" /\ Len(regs) = Arity /\ res = None
           /\ res' = WithMeta(MergeN(Sorted)) /\ UNCHANGED <<regs, fl>>
DoEmbed == /\ Op = "embed" /\ Len(regs) = Arity /\ res = None
           /\ \E uva, uvk \in BOOLEAN :
                 /\ fl' = [Flags0 EXCEPT !.uva = uva, !.uvk = uvk]
                 /\ res' = WithMeta(EmbedN(Sorted, uva, uvk))
           /\ UNCHANGED regs
DoMask ==  /\ Op = "mask" /\ Len(regs) = 1 /\ res = None
           /\ \E n \in 0..(Len(Posi(regs[1].ps)) + MaxN), nm \in NameTuples(regs[1].ps), h \in FlagSets :
                 /\ fl' = [Flags0 EXCEPT !.n = n, !.names = nm, !.ha = h.ha, !.hk = h.hk, !.hva = h.hva, !.hvk = h.hvk]
                 /\ res' = WithMeta(Mask(Sorted[1], n, nm, h.ha, h.hk, h.hva, h.hvk))
           /\ UNCHANGED regs
DoForwards == /\ Op = "forwards" /\ Len(regs) = 2 /\ res = None
              /\ \E n \in 0..MaxN, nm \in NameTuples(regs[2].ps), uva, uvk, pt \in BOOLEAN :
                    /\ Len(nm) <= MaxNamesLen
                    /\ fl' = [Flags0 EXCEPT !.n = n, !.names = nm, !.uva = uva, !.uvk = uvk, !.partial = pt]
                    /\ res' = WithMeta(Forwards(Sorted[1], Sorted[2], n, nm, FALSE, FALSE, uva, uvk, pt))
              /\ UNCHANGED regs

Next == (\E ps \in U : Load(ps)) \/ DoMerge \/ DoEmbed \/ DoMask \/ DoForwards
Spec == Init /\ [][Next]_vars

(* ------------------------------------------------------------ invariants *)
Done == res # None
(* the operation just performed, as an event of the same shape the trace leg reads *)
Ev == [tid |-> "model", op |-> Op, ins |-> regs, flags |-> fl @@ [vals |-> NoVals, pobj |-> "-"], out |-> res, plain |-> TRUE]
(* THE model-leg invariant: no contract clause of the families in Want fails on any reachable result *)
Inv_Contracts == Done => Verdict(Ev) = {}
(* the same, as a reporting constraint: prints every counterexample as one JSON line and lets TLC go on, so that *)
(* all model-level counterexamples are enumerated (and replayed into the real code) instead of only the first    *)
Report ==
  IF Done THEN \A c \in Verdict(Ev) : PrintT("CEX|" \o c \o "|" \o ToJson([ins |-> PsOf(regs), fl |-> fl]))
  ELSE TRUE
Ips == PsOf(regs)
CallsM == CallsFor(Ips, Foreign, 0)

Inv_C01_Sound == (Done /\ Op = "merge" /\ res.tag = "sig") => C01_Sound(Ips, res.ps, CallsM)
Inv_C09_Exact == (Done /\ Op = "merge" /\ res.tag = "sig") => C09_Exact(Ips, res.ps, CallsM)
Inv_C09_RaiseIff == (Done /\ Op = "merge" /\ res.tag \in {"sig", "incompat"}) => C09_RaiseIff(Ips, res.tag = "incompat", CallsM)
Inv_C02 == (Done /\ Op = "embed" /\ Arity = 2) => EmbedFails(regs, fl, res) = {}
Inv_C03 == (Done /\ Op = "mask") => MaskFails(regs, fl, res) = {}
(* the design of the hide flags (model level; the code is held to the model by the zero-drift comparison of the trace leg): whether mask raises is  *)
(* decided by n and the names alone, and the flagged result is the unflagged one minus the kinds the flags name                                      *)
Inv_C03_HideIsFilter == (Done /\ Op = "mask") =>
    LET un == Mask(Sorted[1], fl.n, fl.names, FALSE, FALSE, FALSE, FALSE) IN
    IF un.tag # "sig" THEN res.tag = un.tag
    ELSE /\ res.tag = "sig"
         /\ res.ps = SelectSeq(un.ps, LAMBDA q : ~HiddenKind(q, fl.ha, fl.hk, fl.hva, fl.hvk))
Inv_C08_WF == (Done /\ res.tag = "sig") => SourcesWF(res) = {}
Inv_C08_VsInputs == (Done /\ res.tag = "sig") => SourcesVsInputs(Op, regs, fl, res) = {}
Inv_C15 == Done => C15Fails(Op, regs, res) = {}
Inv_C10_Merge == (Done /\ Op = "merge" /\ res.tag = "sig" /\ RoleConsistent(Ips)) =>
                    (C10_MergeMeta(Ips, res.ps) = {} /\ C10_PosOrder(Ips, res.ps))
Inv_C10_Embed == (Done /\ Op = "embed" /\ Arity = 2 /\ res.tag = "sig") => C10_EmbedMeta(Ips[1], Ips[2], res.ps) = {}
Inv_C10_Mask  == (Done /\ Op = "mask" /\ res.tag = "sig") => C10_MaskMeta(Ips[1], res.ps) = {}
(* forwards = embed o mask holds of the model by construction; its soundness is the C02/C03 composition *)
Inv_C04_Sound == (Done /\ Op = "forwards" /\ res.tag = "sig" /\ ~fl.partial) =>
    LET o == Ips[1]  i == Ips[2]  names == Rng(fl.names)  Calls == CallsFor(<<o, i>>, Foreign, 0) IN
    names \cap PoNames(i) = {} =>
    \A c \in Calls : (Accepts(res.ps, c) /\ NonColliding(c, res.ps, <<o, i>>) /\ c.kw \cap names = {}) =>
        /\ Accepts(o, c)
        /\ LET s == Surplus(o, c, fl.uva, fl.uvk) IN Accepts(i, [np |-> s.np + fl.n, kw |-> s.kw \cup names])
=============================================================================
