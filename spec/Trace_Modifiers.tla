--------------------------- MODULE Trace_Modifiers ---------------------------
(***************************************************************************)
(* Trace specification for sigtools.modifiers (C12; the order clause is    *)
(* shared with C18).  One event per (base function, decorator form,        *)
(* selection, placement) really applied:                                   *)
(*   base       the def's parameter list (with `self` first for a method)  *)
(*   bound      the decorated function is a method, called on an instance  *)
(*   form       "names" posoargs(po names) / kwoargs(kwo names), stacked   *)
(*              in `order`; "start" kwoargs(extra names, start=s);         *)
(*              "end" posoargs(extra names, end=s);                        *)
(*              "auto" autokwoargs(exceptions=exc)                         *)
(*   decorated  "ok" | "ValueError" | "other:<exception>"                  *)
(*   adv        the signature advertised through each retrieval route      *)
(*   calls      EVERY shape of the complete call set really called with    *)
(*              distinguishable values: ok + the returned locals(), or the *)
(*              exception class                                            *)
(* Clauses (C12): Admissibility, Advertised = the demanded rewrite on every*)
(* route, accepts exactly / delivers exactly what binding to the advertised*)
(* signature prescribes, rejects with TypeError.  DRIFT: the transcription *)
(* of _prepare / __call__ (ModifiersCore!Prepare, Route) predicted it.     *)
(***************************************************************************)
EXTENDS ModifiersCore, Wrappers, Json, IOUtils, TLCExt

TraceLog == ndJsonDeserialize(IOEnv.TRACE_FILE)
Foreign == "zz"
Rng(q) == {q[i] : i \in DOMAIN q}
Clause(bad, name) == IF bad THEN {name} ELSE {}
VARIABLE l

(* the name sets the decorator form stands for, and whether every decoration STEP is admissible *)
SelOf(e) ==
  CASE e.form \in {"names", "names_then_annotate_ret"} -> [tag |-> "ok", po |-> Rng(e.po), kwo |-> Rng(e.kwo)]      \* (a return annotation recorded afterwards changes nothing)
    [] e.form = "start" -> StartForm(e.base, e.s, Rng(e.extra))
    [] e.form = "end"   -> EndForm(e.base, e.s, Rng(e.extra))
    [] e.form = "auto"  -> AutoForm(e.base, Rng(e.exc))
    [] e.form \in {"start_over_names", "end_over_names"} ->
          (* the range form reads what the explicit names left: it only looks at parameters that are still regular *)
          LET adv == Prepare(e.base, Rng(e.po), Rng(e.kwo)) IN
          IF adv.tag # "ok" THEN adv
          ELSE LET outer == IF e.form = "start_over_names" THEN StartForm(adv.adv, e.s, {}) ELSE EndForm(adv.adv, e.s, {}) IN
               IF outer.tag # "ok" THEN outer ELSE [tag |-> "ok", po |-> outer.po \cup Rng(e.po), kwo |-> outer.kwo \cup Rng(e.kwo)]
    [] e.form \in {"names_over_start", "names_over_end"} ->
          LET inner == IF e.form = "names_over_start" THEN StartForm(e.base, e.s, {}) ELSE EndForm(e.base, e.s, {}) IN
          IF inner.tag # "ok" THEN inner ELSE [tag |-> "ok", po |-> inner.po \cup Rng(e.po), kwo |-> inner.kwo \cup Rng(e.kwo)]
StepsAdmissible(e, sel) ==
  /\ sel.tag = "ok"
  /\ Admissible(e.base, sel.po, sel.kwo)
  /\ (e.form \in {"names", "names_then_annotate_ret"} /\ e.order = "po_first")  => Admissible(e.base, sel.po, {})
  /\ (e.form = "names" /\ e.order = "kwo_first") => Admissible(e.base, {}, sel.kwo)
  /\ (e.form \in {"start_over_names", "end_over_names"}) => Admissible(e.base, Rng(e.po), Rng(e.kwo))
  /\ (e.form = "names_over_start") => (Admissible(e.base, {}, StartForm(e.base, e.s, {}).kwo) /\ Admissible(e.base, Rng(e.po), StartForm(e.base, e.s, {}).kwo))
  /\ (e.form = "names_over_end") => Admissible(e.base, EndForm(e.base, e.s, {}).po, {})

Self == <<"SELF", 0>>
FullArgs(e, c) == IF e.bound THEN <<Self>> \o ArgsOf(c) ELSE ArgsOf(c)
Shape(c) == [np |-> c.np, kw |-> Rng(c.kw)]
FullShape(e, c) == [np |-> c.np + (IF e.bound THEN 1 ELSE 0), kw |-> Rng(c.kw)]

(* A method is decorated on its def (with the instance parameter first) and called bound.  Binding re-creates the translator around  *)
(* the bound method: the contract is stated at the BOUND level -- the def without its first parameter, the selection without it.     *)
BaseB(e) == IF e.bound THEN DropFirst(e.base) ELSE e.base
SelB(e, sel) == IF e.bound THEN [po |-> sel.po \ {e.base[1].n}, kwo |-> sel.kwo \ {e.base[1].n}] ELSE [po |-> sel.po, kwo |-> sel.kwo]

CallV(e, sel, adv, c) ==
  LET shape == Shape(c)
      sb == SelB(e, sel)
      want == Bind(adv, ArgsOf(shape), KwOf(shape))
      model == ModelCall(BaseB(e), Prepare(BaseB(e), sb.po, sb.kwo), ArgsOf(shape), KwOf(shape))
  IN IF Excluded(adv, shape) THEN {}
     ELSE Clause(want.ok /\ ~c.ok, "C12_AcceptedCallRejected")
     \cup Clause(~want.ok /\ c.ok, "C12_RejectedCallAccepted")
     \cup Clause(want.ok /\ c.ok /\ want.map # c.map, "C12_DeliveryDiffersFromSignatureBinding")
     \cup Clause(~c.ok /\ c.exc # "TypeError", "C12_RejectsWithOtherThanTypeError")
     \cup Clause(model.ok # c.ok \/ (model.ok /\ c.ok /\ model.map # c.map), "DRIFT_RouteModel")

ModifV(e) ==
  LET base == e.base
      sel == SelOf(e)
      adm == StepsAdmissible(e, sel)
      sb == SelB(e, sel)
      shown == {e.adv[x].ps : x \in {y \in DOMAIN e.adv : e.adv[y].tag = "sig"}}
      good == {a \in shown : IsRewrite(BaseB(e), sb.po, sb.kwo, a)}
      shapes == {Shape(e.calls[i]) : i \in DOMAIN e.calls}
      expectShapes == [np : 0..(Len(Posi(BaseB(e))) + 1), kw : SUBSET (AllNames(BaseB(e)) \cup {Foreign})]
      prep == Prepare(BaseB(e), sb.po, sb.kwo)
  IN
  IF e.decorated # "ok" THEN
       Clause(e.decorated # "ValueError", "C12_DecorationRaisesOtherThanValueError")
       \cup Clause(adm, "C12_AdmissibleSelectionRejected")
  ELSE IF ~adm THEN {"C12_InadmissibleSelectionAccepted"}
  ELSE Clause(e.bindexc # "", "C12_BindingRaised")
       \cup Clause(\E x \in DOMAIN e.adv : e.adv[x].tag # "sig", "C12_RetrievalRaised")
       \cup Clause(Cardinality(shown) > 1, "C12_RoutesDisagree")
       \cup Clause(shown # {} /\ good = {}, "C12_AdvertisedIsNotTheRewrite")
       \cup Clause(e.bindexc = "" /\ shapes # expectShapes, "HARNESS_CallSetIncomplete")
       \cup (IF good = {} THEN {} ELSE LET adv == CHOOSE g \in good : TRUE IN UNION {CallV(e, sel, adv, e.calls[i]) : i \in DOMAIN e.calls})
       \cup Clause(prep.tag # "ok" \/ (good # {} /\ prep.adv \notin good), "DRIFT_PrepareModel")

Init == l = 1
Next == /\ l <= Len(TraceLog)
        /\ LET e == TraceLog[l] IN \A c \in ModifV(e) : PrintT("FAIL|" \o e.tid \o "|" \o c)
        /\ l' = l + 1
Spec == Init /\ [][Next]_l
TraceAccepted == TLCGet("stats").diameter = Len(TraceLog) + 1
=============================================================================
