------------------------------- MODULE ObjHist -------------------------------
(***************************************************************************)
(* Histories of use of one decorated method (C18): the caller's references,*)
(* the descriptor cache of sigtools._util.OverrideableDataDesc and         *)
(* reclamation.                                                            *)
(*                                                                         *)
(* Objects: instances i of a class whose attribute m is a descriptor made  *)
(* by a sigtools decorator.  Accessing i.m (Bind) asks the descriptor for  *)
(* a bound wrapper; descriptors that cache (the modifiers translator, the  *)
(* forger wrapper of forwards_to_* with emulate=True) keep a dictionary    *)
(* insts keyed WEAKLY by the bound function; the cached wrapper references *)
(* that bound function -- and through it the instance -- strongly.         *)
(*   CacheHoldsValue = "strong": the dictionary holds the wrapper itself   *)
(*        (the pinned code: the value keeps its own weak key alive, the    *)
(*        entry and the instance can never be reclaimed)                   *)
(*   CacheHoldsValue = "weak": the dictionary holds the wrapper weakly     *)
(*        (the repaired code: the entry lives while the caller holds the   *)
(*        wrapper)                                                         *)
(*   CacheHoldsValue = "none": the descriptor does not cache               *)
(* Caller state: held[i] (a reference to the instance), got[i] (number of  *)
(* bound wrappers obtained from i and still referenced).                   *)
(* Actions = the operations of a history; the trace leg executes every     *)
(* history TLC generates on real objects.                                  *)
(***************************************************************************)
EXTENDS Naturals, Sequences, FiniteSets, TLC, Json

CONSTANTS Inst, MaxOps, CacheHoldsValue, MaxGot

VARIABLES held, got, cached, hist, redecorated
vars == <<held, got, cached, hist, redecorated>>

Init == /\ held = [i \in Inst |-> TRUE] /\ got = [i \in Inst |-> 0] /\ cached = [i \in Inst |-> FALSE]
        /\ hist = <<>> /\ redecorated = 0

Room == Len(hist) < MaxOps
Op(name, i) == hist' = Append(hist, [op |-> name, i |-> i])

(* reachability of instance i from the roots: the caller, and the class (which owns the descriptor and its cache) *)
EntryAlive(i) == cached[i] /\ (CacheHoldsValue = "strong" \/ (CacheHoldsValue = "weak" /\ got[i] > 0))
Reachable(i) == held[i] \/ got[i] > 0 \/ (cached[i] /\ CacheHoldsValue = "strong")

(* i.m, keeping the result *)
Bind(i) == /\ Room /\ held[i] /\ got[i] < MaxGot
           /\ got' = [got EXCEPT ![i] = @ + 1]
           /\ cached' = [cached EXCEPT ![i] = (CacheHoldsValue # "none")]
           /\ Op("bind", i) /\ UNCHANGED <<held, redecorated>>
(* i.m(...) / signature(i.m): the bound wrapper is a temporary *)
Use(i, name) == /\ Room /\ held[i]
                /\ cached' = [cached EXCEPT ![i] = IF CacheHoldsValue = "strong" THEN TRUE ELSE (CacheHoldsValue = "weak" /\ EntryAlive(i))]
                /\ Op(name, i) /\ UNCHANGED <<held, got, redecorated>>
(* signature(K.m) *)
RetrieveOnClass == /\ Room /\ Op("retrieve_class", "-") /\ UNCHANGED <<held, got, cached, redecorated>>
(* annotate applied to the already decorated method: changes the DEFINITION, every later result reflects it *)
Redecorate == /\ Room /\ redecorated < 1 /\ redecorated' = redecorated + 1
              /\ Op("redecorate", "-") /\ UNCHANGED <<held, got, cached>>
(* the caller forgets one bound wrapper *)
Forget(i) == /\ Room /\ got[i] > 0 /\ got' = [got EXCEPT ![i] = @ - 1]
             /\ cached' = [cached EXCEPT ![i] = IF CacheHoldsValue = "weak" /\ got[i] = 1 THEN FALSE ELSE @]
             /\ Op("forget", i) /\ UNCHANGED <<held, redecorated>>
(* the caller drops the instance and everything obtained from it, then collects *)
Drop(i) == /\ Room /\ held[i]
           /\ held' = [held EXCEPT ![i] = FALSE] /\ got' = [got EXCEPT ![i] = 0]
           /\ cached' = [cached EXCEPT ![i] = IF CacheHoldsValue = "strong" THEN @ ELSE FALSE]
           /\ Op("drop", i) /\ UNCHANGED redecorated

Next == \/ \E i \in Inst : Bind(i) \/ Use(i, "call") \/ Use(i, "retrieve_inst") \/ Forget(i) \/ Drop(i)
        \/ RetrieveOnClass \/ Redecorate
Spec == Init /\ [][Next]_vars

TypeOK == \A i \in Inst : got[i] \in 0..MaxGot /\ (got[i] > 0 => held[i])
(* C18: once the caller has dropped every reference to an instance and to what it obtained from it, the instance is reclaimed *)
Reclaimed == \A i \in Inst : (~held[i] /\ got[i] = 0) => ~Reachable(i)
(* a cache entry never outlives the caller's interest *)
NoStaleEntry == \A i \in Inst : (~held[i] /\ got[i] = 0) => ~EntryAlive(i)

(* every behaviour of full length is a history for the replay leg *)
Export == IF Len(hist) = MaxOps THEN PrintT("BEH|" \o ToJson([hist |-> hist])) ELSE TRUE
=============================================================================
