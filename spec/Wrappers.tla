------------------------------ MODULE Wrappers ------------------------------
(***************************************************************************)
(* What really happens when a wrapper forwards its star parameters.        *)
(*                                                                         *)
(* A forwarding wrapper is a function with parameter list o whose body     *)
(* performs ONE call                                                       *)
(*     inner(<n positionals>, *args?, <names>=..., **kwargs?)              *)
(* where *args / **kwargs are o's own star parameters (forwarded iff       *)
(* uva / uvk).  ExecOutcome says what CPython does with a call of shape c: *)
(*   "outer"  binding TypeError binding c to the wrapper's own def         *)
(*   "inner"  binding TypeError at the forwarded call (incl. a keyword     *)
(*            passed twice: once written, once through **kwargs)           *)
(*   "ok"     both bind                                                    *)
(* This is the operational meaning behind SigContracts!Comp; Trace_Exec    *)
(* checks on every executed program that it predicts the real outcome.     *)
(* Decorator stacks (C13) are chains of such bindings: DeliverChain.       *)
(***************************************************************************)
EXTENDS PyBind

(* what lands in the wrapper's star parameters *)
StarSurplus(o, c) ==
  [np |-> IF HasVar(o) /\ c.np > Len(Posi(o)) THEN c.np - Len(Posi(o)) ELSE 0,
   kw |-> IF HasVkw(o) THEN {k \in c.kw : k \notin KwPassable(o)} ELSE {}]

InnerShape(o, c, n, names, uva, uvk) ==
  LET s == StarSurplus(o, c) IN
  [np |-> n + (IF uva THEN s.np ELSE 0), kw |-> names \cup (IF uvk THEN s.kw ELSE {}),
   dup |-> uvk /\ (names \cap s.kw # {})]

ExecOutcome(o, i, n, names, uva, uvk, c) ==
  IF ~Accepts(o, c) THEN "outer"
  ELSE LET sh == InnerShape(o, c, n, names, uva, uvk) IN
       IF sh.dup \/ ~Accepts(i, [np |-> sh.np, kw |-> sh.kw]) THEN "inner" ELSE "ok"

(* Decorator stacks (C13).  A layer is [o : parameter list of the wrapper function WITHOUT its first parameter (the wrapped   *)
(* callable), n, names, uva, uvk : how its body calls the wrapped callable]; the last element of the chain is the base       *)
(* function's parameter list.  ChainOutcome says at which depth CPython raises a binding TypeError (0 = none).               *)
RECURSIVE ChainOutcome(_, _, _, _)
ChainOutcome(layers, base, c, depth) ==
  IF layers = <<>> THEN (IF Accepts(base, c) THEN 0 ELSE depth)
  ELSE LET L == Head(layers) IN
       IF ~Accepts(L.o, c) THEN depth
       ELSE LET sh == InnerShape(L.o, c, L.n, L.names, L.uva, L.uvk) IN
            IF sh.dup THEN depth + 1
            ELSE ChainOutcome(Tail(layers), base, [np |-> sh.np, kw |-> sh.kw], depth + 1)
ChainOk(layers, base, c) == ChainOutcome(layers, base, c, 1) = 0

(* a method: the first positional parameter is bound to the instance *)
DropFirst(ps) == LET S == {x \in DOMAIN ps : ps[x].k \in {"po", "pok"}} IN
                 IF S = {} THEN ps
                 ELSE LET f == CHOOSE x \in S : \A y \in S : x <= y IN SubSeq(ps, 1, f - 1) \o SubSeq(ps, f + 1, Len(ps))
=============================================================================
