---------------------------- MODULE AutoFwdCore ----------------------------
(***************************************************************************)
(* The abstract interpreter behind automatic signature discovery           *)
(* (sigtools/_autoforwards.py, CallListerVisitor), as operators on an      *)
(* analysis state, next to a RUNTIME GHOST that says what the same         *)
(* statements do to the real *args / **kwargs objects when the function    *)
(* body executes.  A program is a sequence of statements of the function   *)
(*     def f(<outer parameters>, *args, **kwargs)                          *)
(*                                                                         *)
(* Statement record (all statements have the same fields; "-" = unused):   *)
(*   k    "fwd"    a forwarding call  w(<n positionals>, *A?, names=, **K?) *)
(*        "taint"  a statement that rebinds / mutates / hands over a star  *)
(*        "decoy"  a call that has nothing to do with the star parameters  *)
(*   ctx  where the statement stands:                                      *)
(*        "top"           directly in the body (any statement context: the *)
(*                        walker descends through if/try/with/for/...)     *)
(*        "dead"          in a branch that is not taken at run time        *)
(*        "nested_now"    inside a nested def that is called at once       *)
(*        "nested_after"  inside a nested def that is called at the end    *)
(*        "nested_never"  inside a nested def that is never called         *)
(*        "lambda_now"    (fwd only) inside a lambda that is called at once*)
(*   sa, sk  (fwd) what the call passes as * / **:                         *)
(*        "own" the function's own star, "none", "other" another object,   *)
(*        "two" the own star combined with another one                     *)
(*   tgt  (taint) "A" = *args, "K" = **kwargs                              *)
(*   how  (taint) the statement form, see StoreLike / LoadLike / Method    *)
(*                                                                         *)
(* Analysis state (the walker's namespace machine, CallListerVisitor):     *)
(*   mA, mK   marker of the star names in the OUTER namespace: "arg" (the  *)
(*            pristine Arg marker) or "unk" (Unknown)                      *)
(*   tA, tK   the `tainted` attribute of the Arg marker (set by a method   *)
(*            call on the star)                                            *)
(*   calls    extracted forwarding calls, in the order the walker appends  *)
(*   deferred calls found in nested scopes (to_revisit), processed against *)
(*            the FINAL outer namespace when the body has been walked      *)
(* Ghost:                                                                  *)
(*   rtA, rtK the variable still holds the object the caller's arguments   *)
(*            were collected into, unmodified and not handed to other code *)
(*   execs    one record per EXECUTION of a forwarding call: was each star *)
(*            pristine at that moment                                      *)
(*   late     nested functions to be run at the end of the body            *)
(***************************************************************************)
EXTENDS Naturals, Sequences, FiniteSets

(* code variant: does visit_Call in a nested scope look INTO the arguments of the nested call at once (repaired) or only at the end *)
NestedArgsExposed == TRUE

StarSrc == {"own", "none", "other", "two"}
FwdCtx  == {"top", "dead", "nested_now", "nested_after", "nested_never", "lambda_now"}
NestedCtx == {"nested_now", "nested_after", "nested_never"}

(* statement forms, by what the walker sees *)
StoreLike == {"rebind", "aug", "fortarget", "withas", "walrus", "delete",    \* ast.Name in Store/Del context
              "import_as", "match_capture"}                                   \* binding forms WITHOUT an ast.Name node: import .. as, match capture
LoadLike  == {"handover", "contains", "item_set", "item_del",                \* ast.Name in Load context (not as * / ** of a call)
              "handover_expr",                                                \* handed over inside a display / conditional: H([kwargs])
              "default_capture"}                                              \* captured as a default value of a nested lambda / def
Method    == {"method", "method_ro"}                                          \* attribute call on the star: kwargs.pop(..) / kwargs.get(..)
(* forms that exist for each star *)
HowTop(tgt)    == IF tgt = "A" THEN {"rebind", "aug", "fortarget", "withas", "walrus", "handover", "handover_expr", "method_ro", "import_as", "match_capture", "default_capture"}
                  ELSE StoreLike \cup LoadLike \cup Method
HowNested(tgt) == IF tgt = "A" THEN {"nonlocal", "handover", "handover_expr", "method_ro"}
                  ELSE {"nonlocal", "handover", "handover_expr", "contains", "item_set", "item_del", "method", "method_ro"}

S(k, ctx, sa, sk, tgt, how) == [k |-> k, ctx |-> ctx, sa |-> sa, sk |-> sk, tgt |-> tgt, how |-> how, arg |-> "-"]
(* a forwarding call may carry, as its FIRST positional argument, an expression that itself touches **kwargs: arguments are       *)
(* evaluated (and walked) before the star arguments are expanded (resolved)                                                        *)
ArgForms == {"-", "popK", "handK"}          \* w(kwargs.pop('t', None), ..., **kwargs)  /  w(H(kwargs), ..., **kwargs)
FwdStmts   == {[S("fwd", c, a, b, "-", "-") EXCEPT !.arg = g] : c \in FwdCtx, a \in StarSrc, b \in StarSrc, g \in ArgForms}
TaintStmts == {S("taint", c, "-", "-", t, h) : c \in {"top", "dead"}, t \in {"A", "K"}, h \in StoreLike \cup LoadLike \cup Method}
              \cup {S("taint", c, "-", "-", t, h) : c \in NestedCtx, t \in {"A", "K"}, h \in {"nonlocal"} \cup LoadLike \cup Method}
WellFormed(s) == s.k # "taint" \/ (/\ IF s.ctx \in NestedCtx THEN s.how \in HowNested(s.tgt) ELSE s.how \in HowTop(s.tgt)
                                   /\ s.how = "delete" => s.ctx = "dead")      \* a deleted name cannot be used again: only in a branch not taken
Decoy == S("decoy", "top", "-", "-", "-", "-")
Stmts == {s \in FwdStmts \cup TaintStmts : WellFormed(s)} \cup {Decoy}

(* ---------------------------------------------------------------- runtime *)
(* does executing the statement end the pristine state of the star (the property's list: rebound, mutated, deleted, *)
(* handed to other code, rebound through nonlocal); *args is a tuple: handing it over or calling a method cannot change it *)
RtChanges(tgt, how) ==
  IF tgt = "A" THEN how \in (StoreLike \ {"aug"}) \cup {"nonlocal"}     \* `args += ()` yields the very same tuple object: no change
  ELSE how \in StoreLike \cup {"nonlocal", "item_set", "item_del", "method", "handover", "handover_expr", "default_capture"}

(* ------------------------------------------------------------------ state *)
St0 == [mA |-> "arg", mK |-> "arg", tA |-> FALSE, tK |-> FALSE, calls |-> <<>>, deferred |-> <<>>,
        rtA |-> TRUE, rtK |-> TRUE, execs |-> <<>>, late |-> <<>>]

(* resolve_name(star, ro=True) compared with the function's own marker: has_hide_starargs *)
Seen(src, m, t) == CASE src = "none" -> "none"
                     [] src = "own" -> (IF m = "arg" /\ ~t THEN "own" ELSE "unk")
                     [] OTHER -> "unk"            \* another object, or two starred arguments (Unknown)
CallRec(id, sa, sk, st) ==
  [id |-> id, useA |-> Seen(sa, st.mA, st.tA) = "own", hideA |-> Seen(sa, st.mA, st.tA) = "unk",
              useK |-> Seen(sk, st.mK, st.tK) = "own", hideK |-> Seen(sk, st.mK, st.tK) = "unk"]
ExecRec(id, st) == [id |-> id, prA |-> st.rtA, prK |-> st.rtK]

(* effect of one executed taint on the ghost *)
RunTaint(st, s) == [st EXCEPT !.rtA = @ /\ ~(s.tgt = "A" /\ RtChanges("A", s.how)),
                              !.rtK = @ /\ ~(s.tgt = "K" /\ RtChanges("K", s.how))]

(* the argument expression of a forwarding call, walked before its star arguments are resolved; evaluated before the call happens *)
ArgAnalysis(st, g) == CASE g = "popK" -> [st EXCEPT !.tK = @ \/ (st.mK = "arg")]
                        [] g = "handK" -> [st EXCEPT !.mK = "unk"]
                        [] OTHER -> st
ArgRuntime(st, g) == IF g \in {"popK", "handK"} THEN [st EXCEPT !.rtK = FALSE] ELSE st

(* visiting one statement of the body: analysis effect and ghost effect *)
Step(st, s, id) ==
  IF s.k = "decoy" THEN st
  ELSE IF s.k = "fwd" THEN
    IF s.ctx = "top" THEN LET a == ArgAnalysis(st, s.arg)  r == ArgRuntime(a, s.arg) IN
                          [r EXCEPT !.calls = Append(@, CallRec(id, s.sa, s.sk, a)), !.execs = Append(@, ExecRec(id, r))]
    ELSE IF s.ctx = "dead" THEN LET a == ArgAnalysis(st, s.arg) IN [a EXCEPT !.calls = Append(@, CallRec(id, s.sa, s.sk, a))]
    ELSE (* nested: the call is deferred; expose_nested_Call walks its arguments at once (NestedArgsExposed), otherwise only at the end *)
         LET a0 == IF NestedArgsExposed THEN ArgAnalysis(st, s.arg) ELSE st
             d == [a0 EXCEPT !.deferred = Append(@, [id |-> id, what |-> "fwd", sa |-> s.sa, sk |-> s.sk, tgt |-> "-", arg |-> s.arg])] IN
         IF s.ctx \in {"nested_now", "lambda_now"} THEN LET r == ArgRuntime(d, s.arg) IN [r EXCEPT !.execs = Append(@, ExecRec(id, r))]
         ELSE IF s.ctx = "nested_after" THEN [d EXCEPT !.late = Append(@, [id |-> id, s |-> s])]
         ELSE d
  ELSE (* taint *)
    IF s.ctx \in {"top", "dead"} THEN
      LET unk == s.how \in StoreLike \/ (s.how \in LoadLike /\ s.tgt = "K")        \* *args is immutable: a Load leaves the marker alone
          a == [st EXCEPT !.mA = IF s.tgt = "A" /\ unk THEN "unk" ELSE @,
                          !.mK = IF s.tgt = "K" /\ unk THEN "unk" ELSE @,
                          !.tA = @ \/ (s.tgt = "A" /\ s.how \in Method /\ st.mA = "arg"),
                          !.tK = @ \/ (s.tgt = "K" /\ s.how \in Method /\ st.mK = "arg")]
      IN IF s.ctx = "top" THEN RunTaint(a, s) ELSE a
    ELSE (* nested def *)
      LET a == IF s.how = "nonlocal" THEN [st EXCEPT !.mA = IF s.tgt = "A" THEN "unk" ELSE @, !.mK = IF s.tgt = "K" THEN "unk" ELSE @]
               ELSE IF s.how \in Method
                    (* visit_Call in a nested scope: taint_instance marks the Arg at once (the nested function may run before *)
                    (* later calls of the body), and the call is deferred like every nested call                             *)
                    THEN [st EXCEPT !.deferred = Append(@, [id |-> id, what |-> "method", sa |-> "-", sk |-> "-", tgt |-> s.tgt, arg |-> "-"]),
                                    !.tA = @ \/ (s.tgt = "A" /\ st.mA = "arg"), !.tK = @ \/ (s.tgt = "K" /\ st.mK = "arg")]
               (* a read inside the nested scope reaches the namespace that OWNS the name (Namespace.owner): the enclosing *)
               (* function's **kwargs becomes Unknown; its *args is an immutable value, a read leaves it alone             *)
               ELSE [st EXCEPT !.mK = IF s.tgt = "K" THEN "unk" ELSE @]
      IN IF s.ctx = "nested_now" THEN RunTaint(a, s)
         ELSE IF s.ctx = "nested_after" THEN [a EXCEPT !.late = Append(@, [id |-> id, s |-> s])]
         ELSE a

(* end of the body: the deferred calls are processed against the final outer namespace, in source order; *)
(* the nested functions scheduled for the end run now                                                    *)
RECURSIVE Revisit(_, _)
Revisit(st, ds) ==
  IF ds = <<>> THEN st
  ELSE LET d == Head(ds) IN
       IF d.what = "method"
       THEN Revisit([st EXCEPT !.tA = @ \/ (d.tgt = "A" /\ st.mA = "arg"), !.tK = @ \/ (d.tgt = "K" /\ st.mK = "arg")], Tail(ds))
       ELSE LET a == ArgAnalysis(st, d.arg) IN Revisit([a EXCEPT !.calls = Append(@, CallRec(d.id, d.sa, d.sk, a))], Tail(ds))
RECURSIVE RunLate(_, _)
RunLate(st, ls) ==
  IF ls = <<>> THEN st
  ELSE LET x == Head(ls) IN
       IF x.s.k = "fwd" THEN LET r == ArgRuntime(st, x.s.arg) IN RunLate([r EXCEPT !.execs = Append(@, ExecRec(x.id, r))], Tail(ls))
       ELSE RunLate(RunTaint(st, x.s), Tail(ls))
Finish(st) == RunLate(Revisit(st, st.deferred), st.late)

RECURSIVE RunFrom(_, _, _)
RunFrom(st, prog, id) == IF id > Len(prog) THEN Finish(st) ELSE RunFrom(Step(st, prog[id], id), prog, id + 1)
Run(prog) == RunFrom(St0, prog, 1)

(* ------------------------------------------------------------- soundness *)
CallOf(calls, id) == calls[CHOOSE i \in DOMAIN calls : calls[i].id = id]
(* the walker never reports a star as forwarded that is not pristine at some execution of the call *)
Sound(st) == \A i \in DOMAIN st.execs :
                LET c == CallOf(st.calls, st.execs[i].id) IN (c.useA => st.execs[i].prA) /\ (c.useK => st.execs[i].prK)
=============================================================================
