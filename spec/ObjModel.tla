------------------------------ MODULE ObjModel ------------------------------
(***************************************************************************)
(* C14: the objects sigtools returns as drop-in inspect.Signature /        *)
(* inspect.Parameter objects.  An abstract object is                        *)
(*   [fam  : "sig" | "param" | "other",                                    *)
(*    up   : BOOLEAN   (an Upgraded* object, not a plain inspect one),     *)
(*    data : id of the plain data (what inspect compares: names, kinds,    *)
(*           defaults, annotations, return annotation),                    *)
(*    uann : id of the upgraded annotations' source values (0 for plain)]  *)
(* SpecEq is the equality the property demands: plain data decide; two     *)
(* upgraded objects additionally agree on their upgraded annotations; an   *)
(* upgraded object equals its plain twin, in both directions; anything     *)
(* else (None, strings, ...) is unequal, never an error.  SpecHash must be *)
(* a function of the plain data (equal objects then hash alike), and an    *)
(* object is hashable iff its plain twin is.                               *)
(* The machine picks two objects of a small menagerie; the invariants say  *)
(* the specified relation has the stated laws (it is NOT transitive: two   *)
(* upgraded objects with different upgraded annotations both equal their   *)
(* common plain twin -- TLC exhibits this, the property does not claim it).*)
(***************************************************************************)
EXTENDS Naturals, FiniteSets, TLC

CONSTANTS Datas, UAnns
Objs == [fam : {"sig", "param"}, up : {TRUE}, data : Datas, uann : UAnns]
        \cup [fam : {"sig", "param"}, up : {FALSE}, data : Datas, uann : {0}]
        \cup {[fam |-> "other", up |-> FALSE, data |-> d, uann |-> 0] : d \in Datas}

SpecEq(x, y) == /\ x.fam = y.fam /\ x.fam # "other"
                /\ x.data = y.data
                /\ (x.up /\ y.up) => x.uann = y.uann
SpecHash(x) == <<x.fam, x.data>>

VARIABLES a, b
Init == a \in Objs /\ b \in Objs
Next == UNCHANGED <<a, b>>
Spec == Init /\ [][Next]_<<a, b>>

Reflexive == a.fam # "other" => SpecEq(a, a)
Symmetric == SpecEq(a, b) = SpecEq(b, a)
HashConsistent == SpecEq(a, b) => SpecHash(a) = SpecHash(b)
PlainTwin == (a.fam = b.fam /\ a.fam # "other" /\ a.data = b.data /\ a.up # b.up) => (SpecEq(a, b) /\ SpecEq(b, a))
(* NOT an invariant (checked to fail, as documentation): transitivity through a plain twin *)
TransitiveVia(c) == (SpecEq(a, c) /\ SpecEq(c, b)) => SpecEq(a, b)
Transitive == \A c \in Objs : TransitiveVia(c)
=============================================================================
