--------------------------- MODULE Trace_AutoFwd ---------------------------
(***************************************************************************)
(* Trace specification for statement-level discovery programs (C05, C06).  *)
(*                                                                         *)
(* One event per program (a behaviour of AutoFwd rendered to Python):      *)
(*   prog        the statement records (AutoFwdCore)                       *)
(*   o, ws       parameter lists of the function and of its callees        *)
(*   wof, nn, names   per statement: callee index, positionals, keywords   *)
(*   real_calls  what the REAL CallListerVisitor extracted (callee, flags) *)
(*   obs_execs   OBSERVED at run time: for every execution of a forwarding *)
(*               call, whether each star still held the pristine object    *)
(*   reported    sigtools.signature(f)      plain   signatures.signature(f)*)
(*   declared    merge of specifiers.forwards(f, callee, n, *names, flags) *)
(*               over the forwarding calls as written (public algebra);    *)
(*               a list: one value per merge order the property leaves open*)
(*   variants    sigtools.signature of the same program in other syntactic *)
(*               contexts / with unrelated statements / other local names  *)
(*   bad_outer, bad_inner   call shapes that raised a binding TypeError    *)
(* TLC re-runs the walker model on prog (AutoFwdCore!Run) and evaluates:   *)
(*   DRIFT walker        the model's call list differs from the real one   *)
(*   HARNESS_Ghost       the model's ghost differs from the observation    *)
(*                       (the MODEL of Python's runtime is wrong: exit 2)  *)
(*   C05_* / C06_* / C07_*   the property clauses, on real observations    *)
(***************************************************************************)
EXTENDS AutoFwdCore, PyBind, Json, IOUtils, TLC, TLCExt

TraceLog == ndJsonDeserialize(IOEnv.TRACE_FILE)
Foreign == "zz"
Rng(q) == {q[i] : i \in DOMAIN q}
Clause(bad, name) == IF bad THEN {name} ELSE {}
VARIABLE l

Shapes(q) == {[np |-> q[x].np, kw |-> Rng(q[x].kw)] : x \in DOMAIN q}
Flags(c) == <<c.useA, c.hideA, c.useK, c.hideK>>

ProgV(e) ==
  LET m == Run(e.prog)
      o == e.o
      ins == <<o>> \o e.ws
      rep == e.reported
      fellBack == rep.tag = "sig" /\ e.plain.tag = "sig" /\ rep.ps = e.plain.ps
      Calls == {c \in [np : 0..e.maxpos, kw : SUBSET Rng(e.kwpool)] : Cardinality(c.kw) <= e.kwmax}
      bad == Shapes(e.bad_outer) \cup Shapes(e.bad_inner)
      callee(id) == e.ws[e.wof[id]]
      (* the reported parameter is attributed to this callee by the reported provenance (callees may share parameter names) *)
      fromCallee(id, y) == rep.ps[y].n \notin DOMAIN rep.src \/ ("w" \o ToString(e.wof[id])) \in Rng(rep.src[rep.ps[y].n])
      (* a star that was not pristine when the call ran: the callee's parameters reachable through it must not be advertised *)
      advertisedK(id) == \E x \in DOMAIN callee(id), y \in DOMAIN rep.ps :
                            callee(id)[x].n = rep.ps[y].n /\ callee(id)[x].k \in {"pok", "kwo"} /\ rep.ps[y].k \in {"pok", "kwo"} /\ fromCallee(id, y)
      advertisedA(id) == \E x \in DOMAIN callee(id), y \in DOMAIN rep.ps :
                            callee(id)[x].n = rep.ps[y].n /\ callee(id)[x].k \in {"po", "pok"} /\ rep.ps[y].k \in {"po", "pok"} /\ fromCallee(id, y)
      usesA(id) == e.prog[id].sa \in {"own", "two"}
      usesK(id) == e.prog[id].sk \in {"own", "two"}
      (* a star that reaches a callee in a way the program text does not determine (combined with another star argument, or passed *)
      (* on after it was modified): what the callee then receives cannot be expressed by ANY signature, so call shapes that put   *)
      (* something into that star are outside what execution can decide (the structural clause below still applies to them)      *)
      unkA == \E x \in DOMAIN e.obs_execs : LET s == e.prog[e.obs_execs[x].id] IN s.sa = "two" \/ (s.sa = "own" /\ ~e.obs_execs[x].prA)
      unkK == \E x \in DOMAIN e.obs_execs : LET s == e.prog[e.obs_execs[x].id] IN s.sk = "two" \/ (s.sk = "own" /\ ~e.obs_execs[x].prK)
      (* a star parameter of the function itself that the reported signature retains (named like it, sourced to the function alone) *)
      (* promises exactly what the plain signature promises -- which the property always accepts --, i.e. nothing                  *)
      ownStar(kind) == \E y \in DOMAIN rep.ps, x \in DOMAIN o : rep.ps[y].k = kind /\ o[x].k = kind /\ o[x].n = rep.ps[y].n
                                                                 /\ rep.ps[y].n \in DOMAIN rep.src /\ Rng(rep.src[rep.ps[y].n]) = {"f1"}
      written == UNION {Rng(e.names[x]) : x \in DOMAIN e.names}       \* a keyword the function itself writes cannot be repeated by the caller
      decidable(c) == /\ (unkA \/ ownStar("var")) => c.np <= Len(Posi(rep.ps))
                      /\ (unkK \/ ownStar("vkw")) => c.kw \subseteq KwPassable(rep.ps)
                      /\ unkA => c.np <= Len(Posi(o))
                      /\ unkK => c.kw \subseteq KwPassable(o)
                      /\ c.kw \cap written = {}
      (* KNOWN LIMIT of discovery (finding hidden-call-merged): a call whose star the walker marked Unknown ("hide") is given a   *)
      (* signature that retains the function's own star, i.e. "accepts anything", and is MERGED with the precise signatures of the *)
      (* other calls -- whose parameters then stay advertised although the hidden call receives them too.  Shapes that feed a star *)
      (* which the reference walker hides at some executed call are reported under their own clause name.                          *)
      executed(id) == \E x \in DOMAIN e.obs_execs : e.obs_execs[x].id = id
      hiddenA == \E x \in DOMAIN m.calls : m.calls[x].hideA /\ e.prog[m.calls[x].id].sa \in {"own", "two"} /\ executed(m.calls[x].id)
      hiddenK == \E x \in DOMAIN m.calls : m.calls[x].hideK /\ e.prog[m.calls[x].id].sk \in {"own", "two"} /\ executed(m.calls[x].id)
      explained(c) == (hiddenA /\ c.np > Len(Posi(o))) \/ (hiddenK /\ ~(c.kw \subseteq KwPassable(o)))
      (* the same callee reached by ANOTHER call that forwards the star and never ran with it tainted: its parameters are advertised legitimately *)
      otherUse(id, star) == \E j \in DOMAIN e.prog : j # id /\ e.prog[j].k = "fwd" /\ e.wof[j] = e.wof[id]
                               /\ (IF star = "K" THEN e.prog[j].sk = "own" ELSE e.prog[j].sa = "own")
                               /\ \A x \in DOMAIN e.obs_execs : e.obs_execs[x].id = j => (IF star = "K" THEN e.obs_execs[x].prK ELSE e.obs_execs[x].prA)
      complete == /\ e.maxpos >= SumPos(ins) + 1
                  /\ UNION {NamedNames(ins[x]) : x \in DOMAIN ins} \cup {Foreign} \subseteq Rng(e.kwpool)
  IN
       Clause(e.ghost_exc = "" /\ m.execs # e.obs_execs, "HARNESS_GhostModelVsObserved")
  (* programs without taints have nothing to observe; with required callee parameters some of them cannot run at all *)
  \cup Clause(e.ghost_exc # "" /\ ~e.taintfree /\ ~(e.ghost_exc = "TypeError" /\ rep.tag = "sig" /\ ~fellBack), "HARNESS_GhostRunFailed")
  \cup Clause(e.other_exc # <<>>, "HARNESS_UnexpectedException")
  \cup Clause(~complete, "HARNESS_CallSetIncomplete")
  \cup Clause(rep.tag # "sig", "C07_RetrievalRaised")
  \cup (IF rep.tag = "sig" /\ ~fellBack THEN
            Clause(\E c \in Calls : Accepts(rep.ps, c) /\ NonColliding(c, rep.ps, ins) /\ decidable(c) /\ c \in bad /\ ~explained(c),
                   "C05_AcceptedCallRaisesTypeError")
       \cup Clause(\E c \in Calls : Accepts(rep.ps, c) /\ NonColliding(c, rep.ps, ins) /\ decidable(c) /\ c \in bad /\ explained(c),
                   "C05_AcceptedCallRaisesTypeError_HiddenCallMerged")
       \cup Clause(\E x \in DOMAIN e.obs_execs : LET id == e.obs_execs[x].id IN
                      \/ (~e.obs_execs[x].prK /\ usesK(id) /\ advertisedK(id) /\ ~otherUse(id, "K"))
                      \/ (~e.obs_execs[x].prA /\ usesA(id) /\ advertisedA(id) /\ ~otherUse(id, "A")), "C05_TaintedStarAdvertised")
        ELSE {})
  (* C06 on programs without taint statements: discovered = declared, in parameters and provenance; the plain signature when *)
  (* nothing usable remains or the declaration cannot be honoured                                                           *)
  \cup (IF ~(e.taintfree \/ e.declarable) \/ rep.tag # "sig" THEN {}
        ELSE IF \E a \in DOMAIN e.declared : e.declared[a].tag = "sig" THEN
               LET D == {e.declared[a] : a \in {x \in DOMAIN e.declared : e.declared[x].tag = "sig"}} IN
               Clause(\A d \in D : rep.ps # d.ps, "C06_DiscoveredParamsDifferFromDeclared")
               \cup Clause((\E d \in D : rep.ps = d.ps) /\ \A d \in D : rep.ps = d.ps => (rep.src # d.src \/ rep.depth # d.depth),
                           "C06_DiscoveredProvenanceDiffersFromDeclared")
        ELSE Clause(~fellBack, "C06_FallbackIsNotPlainSignature"))
  \cup Clause(\E v \in DOMAIN e.variants : e.variants[v].tag # rep.tag \/ (rep.tag = "sig" /\ e.variants[v].ps # rep.ps),
              "C06_IrrelevantVariationChangesResult")

(* reference model vs real walker: same calls, same flags, in the same order *)
DriftV(e) ==
  LET m == Run(e.prog) IN
  IF Len(m.calls) # Len(e.real_calls) THEN {"walker_ncalls"}
  ELSE IF \E x \in DOMAIN m.calls : Flags(m.calls[x]) # Flags(e.real_calls[x])
                                      \/ e.real_calls[x].w # "w" \o ToString(e.wof[m.calls[x].id]) THEN {"walker_flags"}
  ELSE {}

Init == l = 1
Next == /\ l <= Len(TraceLog)
        /\ LET e == TraceLog[l] IN
             /\ \A c \in ProgV(e) : PrintT("FAIL|" \o e.tid \o "|" \o c)
             /\ \A d \in DriftV(e) : PrintT("DRIFT|" \o e.tid \o "|" \o d)
        /\ l' = l + 1
Spec == Init /\ [][Next]_l
TraceAccepted == TLCGet("stats").diameter = Len(TraceLog) + 1
=============================================================================
