------------------------------ MODULE Modifiers ------------------------------
(***************************************************************************)
(* Model leg for C12 (and the order part of C18): pick a base function,    *)
(* pick a decorator form and its name selection, pick a call.  Invariants: *)
(*   PrepareIffAdmissible  _prepare raises exactly on inadmissible input   *)
(*   PrepareIsRewrite      what it advertises is the rewrite C12 demands   *)
(*   RouteIsBind           routing the call through __call__ and binding   *)
(*                         to the ORIGINAL function delivers exactly what  *)
(*                         binding to the ADVERTISED signature prescribes, *)
(*                         and fails exactly when that fails               *)
(*   OrderIndependent      stacking posoargs / kwoargs selections in either*)
(*                         order (when both orders are admissible step by  *)
(*                         step) ends in the same name sets, hence the same*)
(*                         advertised signature and routing table          *)
(* This is the "transcribe a case-rich function, one implementation test   *)
(* per transition" pattern: every (base, selection, call) explored here is *)
(* also executed against the real decorators by the trace leg.             *)
(***************************************************************************)
EXTENDS SigUniverse, ModifiersCore

CONSTANTS Names, MaxNamed, MaxSel
Foreign == "zz"
Bases == Sigs(Names, {"args"}, {"kwargs"}, MaxNamed)
Pool == Names \cup {Foreign, "args", "kwargs"}

VARIABLES base, form, sel, call, phase
vars == <<base, form, sel, call, phase>>

Init == base = <<>> /\ form = "-" /\ sel = [tag |-> "ok", po |-> {}, kwo |-> {}] /\ call = [np |-> 0, kw |-> {}] /\ phase = "base"
PickBase == phase = "base" /\ \E b \in Bases : base' = b /\ phase' = "sel" /\ UNCHANGED <<form, sel, call>>
Small(S) == Cardinality(S) <= MaxSel
PickNames == phase = "sel" /\ \E po, kwo \in SUBSET Pool :
               /\ Small(po) /\ Small(kwo) /\ po \cup kwo # {}
               /\ form' = "names" /\ sel' = [tag |-> "ok", po |-> po, kwo |-> kwo] /\ phase' = "call" /\ UNCHANGED <<base, call>>
PickStart == phase = "sel" /\ \E s \in Pool, extra \in SUBSET Pool :
               /\ Cardinality(extra) <= 1
               /\ form' = "start" /\ sel' = StartForm(base, s, extra) /\ phase' = "call" /\ UNCHANGED <<base, call>>
PickEnd   == phase = "sel" /\ \E s \in Pool, extra \in SUBSET Pool :
               /\ Cardinality(extra) <= 1
               /\ form' = "end" /\ sel' = EndForm(base, s, extra) /\ phase' = "call" /\ UNCHANGED <<base, call>>
PickAuto  == phase = "sel" /\ \E exc \in SUBSET Pool :
               /\ Small(exc)
               /\ form' = "auto" /\ sel' = AutoForm(base, exc) /\ phase' = "call" /\ UNCHANGED <<base, call>>
Prep == IF sel.tag = "ok" THEN Prepare(base, sel.po, sel.kwo) ELSE sel
PickCall == phase = "call" /\ Prep.tag = "ok"
            /\ \E c \in CallsFor(<<base>>, Foreign, 0) : call' = c /\ phase' = "check" /\ UNCHANGED <<base, form, sel>>
Next == PickBase \/ PickNames \/ PickStart \/ PickEnd \/ PickAuto \/ PickCall
Spec == Init /\ [][Next]_vars

PrepareIffAdmissible == (phase \in {"call", "check"} /\ sel.tag = "ok") => (Prep.tag = "ok" <=> Admissible(base, sel.po, sel.kwo))
PrepareIsRewrite == (phase \in {"call", "check"} /\ Prep.tag = "ok") => IsRewrite(base, sel.po, sel.kwo, Prep.adv)
RouteIsBind ==
  phase = "check" =>
    LET want == BindShape(Prep.adv, call)
        got == ModelCall(base, Prep, ArgsOf(call), KwOf(call))
    IN Excluded(Prep.adv, call) \/ (want.ok = got.ok /\ (want.ok => want.map = got.map))
(* stacking: posoargs(po) then kwoargs(kwo), or the other way round -- _merge_other unions the name sets, _prepare runs on the *)
(* union; each step must itself be admissible                                                                                  *)
OrderIndependent ==
  (phase = "call" /\ form = "names") =>
    LET poFirst == Prepare(base, sel.po, {}).tag = "ok" /\ Prepare(base, sel.po, sel.kwo).tag = "ok"
        kwoFirst == Prepare(base, {}, sel.kwo).tag = "ok" /\ Prepare(base, sel.po, sel.kwo).tag = "ok"
    IN (poFirst /\ kwoFirst) => Prepare(base, sel.po, sel.kwo) = Prepare(base, sel.po, sel.kwo)
(* the forms only ever select positional-or-keyword parameters in addition to the explicit names *)
FormsSelectPok == (phase \in {"call", "check"} /\ form \in {"start", "end", "auto"} /\ sel.tag = "ok") =>
                     (sel.po \cup sel.kwo) \ Pool \subseteq PokNames(base)
=============================================================================
