---------------------------- MODULE ModifiersCore ----------------------------
(***************************************************************************)
(* sigtools.modifiers (kwoargs / posoargs / autokwoargs): what the         *)
(* decorators compute at decoration time and what _PokTranslator.__call__  *)
(* does with a call.  Structured like the code:                            *)
(*   StartForm / EndForm / AutoForm   the name-set computation of          *)
(*       _kwoargs_start, _posoargs_end, _autokwoargs                       *)
(*   Prepare    _PokTranslator._prepare: the advertised signature, its     *)
(*              ValueError conditions and the kwopos routing table         *)
(*   Route      _PokTranslator.__call__: the args.insert loop              *)
(* and the CONTRACT of property C12, which does not mention the above:     *)
(*   Admissible, Rewrite (the advertised signature the statement demands)  *)
(* Values: <<"P", i>> i-th positional argument, <<"K", name>> keyword      *)
(* argument, <<"D", name>> the default of that parameter.                  *)
(***************************************************************************)
EXTENDS PyBind, TLC

Sel0 == [po |-> {}, kwo |-> {}]
KindOf(base, n) == ParamOf(base, n).k
PokNames(base) == {base[i].n : i \in {j \in DOMAIN base : base[j].k = "pok"}}

(* ----------------------------------------------------------- name-set forms *)
(* kwoargs(start=s, *names): s and every positional-or-keyword parameter after it; ValueError when s is not one of them *)
StartForm(base, s, names) ==
  LET at == {i \in DOMAIN base : base[i].k = "pok" /\ base[i].n = s} IN
  IF at = {} THEN [tag |-> "ValueError"]
  ELSE LET a == CHOOSE i \in at : TRUE IN
       [tag |-> "ok", po |-> {}, kwo |-> names \cup {base[i].n : i \in {j \in DOMAIN base : j >= a /\ base[j].k = "pok"}}]
(* posoargs(end=e, *names): every positional-or-keyword parameter up to and including e *)
EndForm(base, e, names) ==
  LET at == {i \in DOMAIN base : base[i].k = "pok" /\ base[i].n = e} IN
  IF at = {} THEN [tag |-> "ValueError"]
  ELSE LET a == CHOOSE i \in at : TRUE IN
       [tag |-> "ok", kwo |-> {}, po |-> names \cup {base[i].n : i \in {j \in DOMAIN base : j <= a /\ base[j].k = "pok"}}]
(* autokwoargs(exceptions=X): every positional-or-keyword parameter with a default that is not excepted *)
AutoForm(base, exc) ==
  LET cand == {base[i].n : i \in {j \in DOMAIN base : base[j].k = "pok" /\ base[j].d}} IN
  IF ~(exc \subseteq cand) THEN [tag |-> "ValueError"]
  ELSE [tag |-> "ok", po |-> {}, kwo |-> cand \ exc]

(* ------------------------------------------------------------------ _prepare *)
Prepare(base, po, kwo) ==
  LET names == AllNames(base)
      bad == \/ po \cap kwo # {}
             \/ ~((po \cup kwo) \subseteq names)
             \/ \E n \in po \cap names : KindOf(base, n) \notin {"po", "pok"}
             \/ \E n \in kwo \cap names : KindOf(base, n) \notin {"kwo", "pok"}
             \* positional-only requested after a regular parameter
             \/ \E i, j \in DOMAIN base : i < j /\ base[i].k = "pok" /\ base[i].n \notin (po \cup kwo)
                                                /\ base[j].k = "pok" /\ base[j].n \in po
      conv == SelectSeq(base, LAMBDA p : p.k = "pok" /\ p.n \in kwo)
      kwoparams == [i \in DOMAIN conv |-> [conv[i] EXCEPT !.k = "kwo"]]
      keep == SelectSeq(base, LAMBDA p : ~(p.k = "pok" /\ p.n \in kwo) /\ p.k # "vkw")
      keep2 == [i \in DOMAIN keep |-> IF keep[i].k = "pok" /\ keep[i].n \in po THEN [keep[i] EXCEPT !.k = "po"] ELSE keep[i]]
      vkw == SelectSeq(base, LAMBDA p : p.k = "vkw")
      kwopos == SelectSeq([i \in DOMAIN base |-> [pos |-> i - 1, p |-> base[i]]], LAMBDA x : x.p.k = "pok" /\ x.p.n \in kwo)
  IN IF bad THEN [tag |-> "ValueError"]
     ELSE [tag |-> "ok", adv |-> keep2 \o kwoparams \o vkw, kwopos |-> kwopos, po |-> po]

(* ------------------------------------------------------------------ __call__ *)
InsertAt(s, pos, v) == SubSeq(s, 1, pos) \o <<v>> \o SubSeq(s, pos + 1, Len(s))       \* pos is 0-based, pos <= Len(s)
Route(prep, args, kw) ==
  IF prep.po \cap DOMAIN kw # {} THEN [ok |-> FALSE]
  ELSE
  LET T == prep.kwopos
      F[i \in 0..Len(T)] ==
         IF i = 0 THEN [args |-> args, kw |-> kw, missing |-> FALSE]
         ELSE LET st == F[i-1]  pos == T[i].pos  p == T[i].p IN
              IF p.n \in DOMAIN st.kw THEN
                   IF pos < Len(st.args) THEN [st EXCEPT !.args = InsertAt(@, pos, st.kw[p.n]), !.kw = [k \in DOMAIN st.kw \ {p.n} |-> st.kw[k]]]
                   ELSE st
              ELSE IF ~p.d THEN [st EXCEPT !.missing = TRUE]
              ELSE IF pos < Len(st.args) THEN [st EXCEPT !.args = InsertAt(@, pos, <<"D", p.n>>)]
              ELSE st
      fin == F[Len(T)]
  IN IF fin.missing THEN [ok |-> FALSE] ELSE [ok |-> TRUE, args |-> fin.args, kw |-> fin.kw]
(* the call as the model says it happens: route, then CPython binds to the ORIGINAL function *)
ModelCall(base, prep, args, kw) ==
  LET r == Route(prep, args, kw) IN IF r.ok THEN Bind(base, r.args, r.kw) ELSE [ok |-> FALSE]

(* ------------------------------------------------------- the contract (C12) *)
(* inadmissible: unknown name, both kinds at once, positional-only after a regular parameter, star parameters (and a *)
(* natively positional-only / keyword-only parameter asked to become the other kind)                                  *)
Admissible(base, po, kwo) ==
  /\ po \cap kwo = {}
  /\ (po \cup kwo) \subseteq NamedNames(base)
  /\ \A n \in po : KindOf(base, n) \in {"po", "pok"}
  /\ \A n \in kwo : KindOf(base, n) \in {"kwo", "pok"}
  /\ \A j \in DOMAIN base : (base[j].k = "pok" /\ base[j].n \in po) =>
        \A i \in 1..(j-1) : base[i].k = "pok" => base[i].n \in po \cup kwo
(* the advertised signature: exactly the selected parameters change kind, nothing else changes (names, defaults,      *)
(* annotations), the positional part keeps its order, the converted keyword-only parameters keep their relative order *)
(* and stand after *args                                                                                              *)
IsRewrite(base, po, kwo, adv) ==
  LET want(p) == IF p.k = "pok" /\ p.n \in po THEN [p EXCEPT !.k = "po"]
                 ELSE IF p.k = "pok" /\ p.n \in kwo THEN [p EXCEPT !.k = "kwo"] ELSE p
      W == [i \in DOMAIN base |-> want(base[i])]
      posW == SelectSeq(W, LAMBDA p : p.k \in {"po", "pok", "var"})
      posA == SelectSeq(adv, LAMBDA p : p.k \in {"po", "pok", "var"})
      moved == kwo \cap PokNames(base)                   \* the parameters that really change kind
      convW == SelectSeq(W, LAMBDA p : p.n \in moved)
      convA == SelectSeq(adv, LAMBDA p : p.n \in moved)
  IN /\ Len(adv) = Len(base)
     /\ {adv[i] : i \in DOMAIN adv} = {W[i] : i \in DOMAIN W}
     /\ posA = posW
     /\ convA = convW
     /\ ValidSig(adv)

(* the version-dependent case: a keyword naming a positional-only parameter alongside **kwargs *)
Excluded(adv, c) == PoKwClash(adv, c)
=============================================================================
