------------------------------- MODULE PyBind -------------------------------
(***************************************************************************)
(* CPython's argument binding, on flat parameter lists.                    *)
(*                                                                         *)
(* A parameter is a record with at least the fields                        *)
(*     n : name (string)                                                   *)
(*     k : kind  in {"po","pok","var","kwo","vkw"}                         *)
(*     d : BOOLEAN  (has a default)                                        *)
(* A *call shape* is [np : Nat, kw : SUBSET Names]: the number of          *)
(* positional arguments and the set of keyword names.  Acceptance under    *)
(* CPython's rules depends on the shape only; Bind additionally says which *)
(* argument reaches which parameter.                                       *)
(*                                                                         *)
(* Nothing here is trusted: Trace_PyBind validates Accepts and Bind        *)
(* against really calling generated functions (check C20 owns that).       *)
(***************************************************************************)
EXTENDS Naturals, Sequences, FiniteSets

Min2(a, b) == IF a < b THEN a ELSE b
Max2(a, b) == IF a > b THEN a ELSE b

Kinds == {"po", "pok", "var", "kwo", "vkw"}
KindRank(k) == CASE k = "po" -> 0 [] k = "pok" -> 1 [] k = "var" -> 2 [] k = "kwo" -> 3 [] k = "vkw" -> 4

Idx(ps)        == DOMAIN ps
Named(ps)      == {i \in Idx(ps) : ps[i].k \in {"po", "pok", "kwo"}}
PosIdx(ps)     == {i \in Idx(ps) : ps[i].k \in {"po", "pok"}}
Posi(ps)       == SelectSeq(ps, LAMBDA p : p.k \in {"po", "pok"})
HasVar(ps)     == \E i \in Idx(ps) : ps[i].k = "var"
HasVkw(ps)     == \E i \in Idx(ps) : ps[i].k = "vkw"
AllNames(ps)   == {ps[i].n : i \in Idx(ps)}
NamedNames(ps) == {ps[i].n : i \in Named(ps)}
KwPassable(ps) == {ps[i].n : i \in {j \in Idx(ps) : ps[j].k \in {"pok", "kwo"}}}
PoNames(ps)    == {ps[i].n : i \in {j \in Idx(ps) : ps[j].k = "po"}}
ParamOf(ps, n) == ps[CHOOSE i \in Idx(ps) : ps[i].n = n]

(* What the validating inspect.Signature constructor demands.              *)
ValidSig(ps) ==
  /\ \A i, j \in Idx(ps) : i < j => KindRank(ps[i].k) <= KindRank(ps[j].k) /\ ps[i].n # ps[j].n
  /\ \A i, j \in Idx(ps) : (i < j /\ ps[i].k \in {"po", "pok"} /\ ps[j].k \in {"po", "pok"} /\ ps[i].d) => ps[j].d
  /\ Cardinality({i \in Idx(ps) : ps[i].k = "var"}) <= 1
  /\ Cardinality({i \in Idx(ps) : ps[i].k = "vkw"}) <= 1
  /\ \A i \in Idx(ps) : ps[i].k \in {"var", "vkw"} => ~ps[i].d

(* ------------------------------------------------------------- acceptance *)
(* A keyword naming a positional-only parameter falls into **kwargs when    *)
(* there is one (3.8+); the properties exclude the calls where that matters *)
(* ("non-colliding").                                                       *)
Accepts(ps, c) ==
  LET posi   == Posi(ps)
      filled == {posi[i].n : i \in 1..Min2(c.np, Len(posi))}
      kwable == KwPassable(ps)
  IN /\ (c.np <= Len(posi) \/ HasVar(ps))
     /\ \A k \in c.kw : IF k \in kwable THEN k \notin filled ELSE HasVkw(ps)
     /\ \A i \in Named(ps) : ~ps[i].d => ps[i].n \in (filled \cup (c.kw \cap kwable))

(* set form: the shapes of Calls that ps accepts *)
AcceptSet(ps, Calls) == {c \in Calls : Accepts(ps, c)}

(* The complete call set for a tuple of parameter lists: acceptance of any  *)
(* signature built from them is invariant under raising np beyond the total *)
(* number of positional parameters + 1 and under replacing any non-empty    *)
(* set of names outside N by one foreign name.                              *)
SumPos(sigs) == LET F[i \in 0..Len(sigs)] == IF i = 0 THEN 0 ELSE F[i-1] + Len(Posi(sigs[i])) IN F[Len(sigs)]
NamesOf(sigs) == UNION {AllNames(sigs[i]) : i \in DOMAIN sigs}
CallsFor(sigs, Foreign, extra) ==
  [np : 0..(SumPos(sigs) + 1 + extra), kw : SUBSET (NamesOf(sigs) \cup {Foreign})]

NonColliding(c, res, ins) ==
  \A k \in c.kw : k \in KwPassable(res) \/ \A i \in DOMAIN ins : k \notin AllNames(ins[i])

(* role of a name inside a signature: kind and, if positional, its index *)
Role(ps, n) == LET i == CHOOSE j \in Idx(ps) : ps[j].n = n IN
               <<ps[i].k, IF ps[i].k \in {"po", "pok"} THEN Cardinality({j \in PosIdx(ps) : j <= i}) ELSE 0>>
RoleConsistent(ins) ==
  \A i, j \in DOMAIN ins : \A n \in AllNames(ins[i]) \cap AllNames(ins[j]) : Role(ins[i], n) = Role(ins[j], n)
NameAligned(ins) ==
  \A i, j \in DOMAIN ins : \A p \in 1..Min2(Len(Posi(ins[i])), Len(Posi(ins[j]))) : Posi(ins[i])[p].n = Posi(ins[j])[p].n
AllAccept(ins, c) == \A i \in DOMAIN ins : Accepts(ins[i], c)

(* ------------------------------------------------------ binding with values *)
(* args : Seq(value);  kw : [set of names -> value].                        *)
(* Result [ok |-> TRUE, map |-> [name -> value]] or [ok |-> FALSE].         *)
(* *args receives a sequence, **kwargs a function, a default <<"D", name>>. *)
Bind(ps, args, kw) ==
  LET posi   == Posi(ps)
      nfill  == Min2(Len(args), Len(posi))
      filled == {posi[i].n : i \in 1..nfill}
      kwable == KwPassable(ps)
      ok == /\ (Len(args) <= Len(posi) \/ HasVar(ps))
            /\ \A k \in DOMAIN kw : IF k \in kwable THEN k \notin filled ELSE HasVkw(ps)
            /\ \A i \in Named(ps) : ~ps[i].d => ps[i].n \in (filled \cup (DOMAIN kw \cap kwable))
      val(p) == IF p.k = "var" THEN SubSeq(args, nfill + 1, Len(args))
                ELSE IF p.k = "vkw" THEN [k \in DOMAIN kw \ kwable |-> kw[k]]
                ELSE IF p.n \in filled THEN args[CHOOSE i \in 1..nfill : posi[i].n = p.n]
                ELSE IF p.n \in DOMAIN kw THEN kw[p.n]
                ELSE <<"D", p.n>>
  IN IF ok THEN [ok |-> TRUE, map |-> [n \in AllNames(ps) |-> val(ParamOf(ps, n))]]
     ELSE [ok |-> FALSE]

ArgsOf(c) == [i \in 1..c.np |-> <<"P", i>>]
KwOf(c)   == [k \in c.kw |-> <<"K", k>>]
BindShape(ps, c) == Bind(ps, ArgsOf(c), KwOf(c))

(* the version-dependent case: keyword naming a positional-only parameter alongside **kwargs *)
PoKwClash(ps, c) == HasVkw(ps) /\ (PoNames(ps) \cap c.kw # {})
=============================================================================
