--------------------------- MODULE PyBindMachine ---------------------------
(***************************************************************************)
(* Sanity model of the binding oracle itself: pick a universe signature,   *)
(* pick a call shape; the invariants relate Accepts and Bind.  (Whether    *)
(* the oracle agrees with CPython is decided by Trace_PyBind on real       *)
(* calls; this model only rules out internal inconsistency.)               *)
(***************************************************************************)
EXTENDS SigUniverse, TLC
CONSTANTS Names, StarV, StarK, MaxNamed
U == Sigs(Names, StarV, StarK, MaxNamed)
Foreign == "zz"
VARIABLES ps, call, phase
vars == <<ps, call, phase>>
Init == ps = <<>> /\ call = [np |-> 0, kw |-> {}] /\ phase = "sig"
PickSig == phase = "sig" /\ \E s \in U : ps' = s /\ phase' = "call" /\ UNCHANGED call
PickCall == phase = "call" /\ \E c \in CallsFor(<<ps>>, Foreign, 0) : call' = c /\ phase' = "done" /\ UNCHANGED ps
Next == PickSig \/ PickCall
Spec == Init /\ [][Next]_vars

B == BindShape(ps, call)
Inv_AcceptsIsBindOk == phase = "done" => (Accepts(ps, call) <=> B.ok)
Inv_MapTotal == (phase = "done" /\ B.ok) => DOMAIN B.map = AllNames(ps)
(* every argument of an accepted call reaches exactly one parameter *)
Delivered(m) == UNION {IF ParamOf(ps, n).k = "var" THEN {m[n][i] : i \in DOMAIN m[n]}
                       ELSE IF ParamOf(ps, n).k = "vkw" THEN {m[n][k] : k \in DOMAIN m[n]}
                       ELSE {m[n]} : n \in AllNames(ps)}
Inv_EveryArgumentDelivered == (phase = "done" /\ B.ok) =>
    /\ \A i \in 1..call.np : <<"P", i>> \in Delivered(B.map)
    /\ \A k \in call.kw : <<"K", k>> \in Delivered(B.map)
(* giving a parameter a default never turns an accepted call into a rejected one *)
Inv_MonotoneInDefaults == (phase = "done" /\ Accepts(ps, call)) =>
    \A i \in Named(ps) : LET ps2 == [ps EXCEPT ![i].d = TRUE] IN Accepts(ps2, call)
=============================================================================
