--------------------------- MODULE ExportUniverse ---------------------------
(***************************************************************************)
(* Writes the bounded universe as ndjson (one {"ps": [...]} per line) to   *)
(* the file named by the environment variable OUT_FILE.  Evaluated from an *)
(* ASSUME, so no behaviour specification is needed.                        *)
(***************************************************************************)
EXTENDS SigUniverse, Json, IOUtils, TLC, SequencesExt
CONSTANTS Names, StarV, StarK, MaxNamed, DVs, ANs

U == IF DVs = {} THEN Sigs(Names, StarV, StarK, MaxNamed)
     ELSE SigsMeta(Names, StarV, StarK, MaxNamed, DVs, ANs)

ASSUME /\ ndJsonSerialize(IOEnv.OUT_FILE, SetToSeq({[ps |-> s] : s \in U}))
       /\ PrintT(<<"UNIVERSE", Cardinality(U)>>)
=============================================================================
