----------------------------- MODULE SigAlgebra -----------------------------
(***************************************************************************)
(* Reference model of sigtools' signature algebra (sigtools/_signatures.py) *)
(* structured like the implementation: one operator per helper, the        *)
(* mutable lists and maps of the code threaded through as a record.        *)
(*                                                                         *)
(* A *sorted* signature is what sort_params(sig, sources=True) returns:    *)
(*   [tag |-> "sig", pos, pok : Seq(Param), va : Param or NoP,             *)
(*    kwo : Seq(Param) (an ordered dict), vk : Param or NoP,               *)
(*    src : [names -> Seq(fn)], depth : [fn -> Nat]]                       *)
(* src/depth are the two halves of UpgradedSignature.sources.              *)
(* Failures are records too:  [tag |-> "incompat"], [tag |-> "valueerror"] *)
(*                                                                         *)
(* This is a transcription of the *present* algorithm, hence stricter than *)
(* the properties (it fixes one answer).  Disagreement between it and the  *)
(* real code is reported as model drift, never as a violation.             *)
(***************************************************************************)
EXTENDS PyBind

NoP == [n |-> "-", k |-> "none", d |-> FALSE, dv |-> 0, an |-> 0]

(* _Merger._concile_meta *)
Concile(l, r) ==
  LET d  == l.d /\ r.d
      dv == IF d THEN (IF l.dv = r.dv THEN l.dv ELSE 1) ELSE 0
      an == IF l.an # 0 /\ r.an # 0 THEN (IF l.an = r.an THEN l.an ELSE 0)
            ELSE IF l.an # 0 THEN l.an ELSE r.an
  IN [l EXCEPT !.d = d, !.dv = dv, !.an = an]
AsKind(p, k) == [p EXCEPT !.k = k]
SeqNames(q) == {q[i].n : i \in DOMAIN q}
KwoGet(q, n) == q[CHOOSE i \in DOMAIN q : q[i].n = n]
KwoDel(q, n) == SelectSeq(q, LAMBDA p : p.n # n)
(* OrderedDict.__setitem__: replace in place or append *)
KwoPut(q, p) == IF p.n \in SeqNames(q) THEN [i \in DOMAIN q |-> IF q[i].n = p.n THEN p ELSE q[i]] ELSE Append(q, p)
KwoUpdate(q, ps) == LET F[i \in 0..Len(ps)] == IF i = 0 THEN q ELSE KwoPut(F[i-1], ps[i]) IN F[Len(ps)]
ClearD(q) == [i \in DOMAIN q |-> [q[i] EXCEPT !.d = FALSE, !.dv = 0]]

(* ---- provenance maps *)
Emp == [x \in {} |-> <<>>]
SGet(src, n) == IF n \in DOMAIN src THEN src[n] ELSE <<>>
(* _add_sources(ret, name, *from): ret.setdefault(name, []).extend(chain(f.get(name, ()) for f in from)) *)
SAdd(src, n, seqs) == LET ext == LET F[i \in 0..Len(seqs)] == IF i = 0 THEN <<>> ELSE F[i-1] \o seqs[i] IN F[Len(seqs)]
                      IN [x \in DOMAIN src \cup {n} |-> IF x = n THEN SGet(src, n) \o ext ELSE src[x]]
SPop(src, S) == [x \in DOMAIN src \ S |-> src[x]]
SSet(src, n, v) == [x \in DOMAIN src \cup {n} |-> IF x = n THEN v ELSE src[x]]
(* dict(a, **b): b wins *)
SOver(a, b) == [x \in DOMAIN a \cup DOMAIN b |-> IF x \in DOMAIN b THEN b[x] ELSE a[x]]
MergeDepths(l, r) == [f \in DOMAIN l \cup DOMAIN r |->
                        IF f \in DOMAIN l /\ f \in DOMAIN r THEN Min2(l[f], r[f])
                        ELSE IF f \in DOMAIN l THEN l[f] ELSE r[f]]

Incompat == [tag |-> "incompat"]
ValErr   == [tag |-> "valueerror"]
IsSig(x) == x.tag = "sig"

(* ---- sort_params / apply_params *)
Sort(ps, src, depth) ==
  LET one(k) == LET S == {i \in DOMAIN ps : ps[i].k = k} IN IF S = {} THEN NoP ELSE ps[CHOOSE i \in S : TRUE]
  IN [tag |-> "sig",
      pos |-> SelectSeq(ps, LAMBDA p : p.k = "po"), pok |-> SelectSeq(ps, LAMBDA p : p.k = "pok"),
      va |-> one("var"), kwo |-> SelectSeq(ps, LAMBDA p : p.k = "kwo"), vk |-> one("vkw"),
      src |-> src, depth |-> depth]
Flat(s) == s.pos \o s.pok \o (IF s.va = NoP THEN <<>> ELSE <<s.va>>) \o s.kwo \o (IF s.vk = NoP THEN <<>> ELSE <<s.vk>>)
(* apply_params goes through the validating inspect.Signature constructor *)
Apply(s) == IF ~IsSig(s) THEN s
            ELSE IF ValidSig(Flat(s)) THEN [tag |-> "sig", ps |-> Flat(s), src |-> s.src, depth |-> s.depth]
            ELSE ValErr
SortSig(x) == Sort(x.ps, x.src, x.depth)

(* ---- the pairwise merger; a = the _Merger instance's mutable state *)
UnbalancedPos(a, e, esrc, other, hasOther, oVaSide, oHasVa, osrc) ==
  IF a.fail THEN a
  ELSE IF hasOther THEN [a EXCEPT !.pos = Append(@, Concile(e, other)),
                                  !.src = SAdd(@, e.n, IF other.n = e.n THEN <<SGet(esrc, e.n), SGet(osrc, e.n)>> ELSE <<SGet(esrc, e.n)>>)]
  ELSE IF oHasVa THEN [a EXCEPT !.pos = Append(@, e), !.src = SAdd(@, e.n, <<SGet(esrc, e.n)>>), !.vaSrc[oVaSide] = FALSE]
  ELSE IF ~e.d THEN [a EXCEPT !.fail = TRUE]
  ELSE a

UnbalancedPok(a, e, side, own, o) ==
  IF a.fail THEN a
  ELSE LET limbo == IF side = 1 THEN a.rLimbo ELSE a.lLimbo IN
  IF e.n \in SeqNames(limbo) THEN
      LET a2 == [a EXCEPT !.kwo = KwoPut(@, AsKind(Concile(e, KwoGet(limbo, e.n)), "kwo")),
                          !.src = SAdd(@, e.n, <<SGet(o.src, e.n), SGet(own.src, e.n)>>)] IN
      IF side = 1 THEN [a2 EXCEPT !.rLimbo = KwoDel(@, e.n)] ELSE [a2 EXCEPT !.lLimbo = KwoDel(@, e.n)]
  ELSE IF o.va # NoP /\ o.vk # NoP THEN [a EXCEPT !.pok = Append(@, e), !.src = SAdd(@, e.n, <<SGet(own.src, e.n)>>)]
  ELSE IF o.vk # NoP THEN [a EXCEPT !.kwo = KwoPut(@, AsKind(e, "kwo")), !.src = SAdd(@, e.n, <<SGet(own.src, e.n)>>)]
  ELSE IF o.va # NoP THEN [a EXCEPT !.pos = @ \o [i \in DOMAIN a.pok |-> AsKind(a.pok[i], "po")] \o <<AsKind(e, "po")>>,
                                    !.pok = <<>>, !.src = SAdd(@, e.n, <<SGet(own.src, e.n)>>)]
  ELSE IF ~e.d THEN [a EXCEPT !.fail = TRUE]
  ELSE a

RECURSIVE AddAll(_, _, _)
AddAll(src, ps, from) == IF ps = <<>> THEN src ELSE AddAll(SAdd(src, Head(ps).n, <<SGet(from, Head(ps).n)>>), Tail(ps), from)

(* l, r sorted signatures; result sorted signature or Incompat (the ValueError of a fold step) *)
Merge2(l, r) ==
  LET matched == SelectSeq(l.kwo, LAMBDA p : p.n \in SeqNames(r.kwo))
      kwo0 == [i \in DOMAIN matched |-> Concile(matched[i], KwoGet(r.kwo, matched[i].n))]
      src0 == [n \in SeqNames(matched) |-> SGet(l.src, n) \o SGet(r.src, n)]
      lUn == SelectSeq(l.kwo, LAMBDA p : p.n \notin SeqNames(r.kwo))
      rUn == SelectSeq(r.kwo, LAMBDA p : p.n \notin SeqNames(l.kwo))
      nl == Len(l.pos)  nr == Len(r.pos)  m == Min2(nl, nr)
      PosBoth(a, x, y) == [a EXCEPT !.pos = Append(@, Concile(x, y)),
                                    !.src = SAdd(@, x.n, IF x.n = y.n THEN <<SGet(l.src, x.n), SGet(r.src, x.n)>> ELSE <<SGet(l.src, x.n)>>)]
      aInit == [pos |-> <<>>, pok |-> <<>>, kwo |-> kwo0, src |-> src0,
                vaSrc |-> <<TRUE, TRUE>>, vkSrc |-> <<TRUE, TRUE>>, lLimbo |-> lUn, rLimbo |-> rUn, fail |-> FALSE]
      P0[i \in 0..m] == IF i = 0 THEN aInit ELSE PosBoth(P0[i-1], l.pos[i], r.pos[i])
      a0 == P0[m]
      extraL == nl - m   extraR == nr - m
      P1[i \in 0..extraL] == IF i = 0 THEN a0
           ELSE UnbalancedPos(P1[i-1], l.pos[m + i], l.src, IF i <= Len(r.pok) THEN r.pok[i] ELSE NoP, i <= Len(r.pok), 2, r.va # NoP, r.src)
      a1 == P1[extraL]
      P2[i \in 0..extraR] == IF i = 0 THEN a1
           ELSE UnbalancedPos(P2[i-1], r.pos[m + i], r.src, IF i <= Len(l.pok) THEN l.pok[i] ELSE NoP, i <= Len(l.pok), 1, l.va # NoP, l.src)
      a2 == P2[extraR]
      lp == SubSeq(l.pok, Min2(extraR, Len(l.pok)) + 1, Len(l.pok))
      rp == SubSeq(r.pok, Min2(extraL, Len(r.pok)) + 1, Len(r.pok))
      mm == Min2(Len(lp), Len(rp))
      Both(a, x, y) == IF a.fail THEN a
                       ELSE IF x.n = y.n THEN [a EXCEPT !.pok = Append(@, Concile(x, y)),
                                                        !.src = SAdd(@, x.n, <<SGet(l.src, x.n), SGet(r.src, x.n)>>)]
                       ELSE [a EXCEPT !.pok = Append([i \in DOMAIN a.pok |-> AsKind(a.pok[i], "po")], AsKind(Concile(x, y), "po")),
                                      !.src = SAdd(@, x.n, <<SGet(l.src, x.n)>>)]
      P3[i \in 0..mm] == IF i = 0 THEN a2 ELSE Both(P3[i-1], lp[i], rp[i])
      a3 == P3[mm]
      restL == SubSeq(lp, mm + 1, Len(lp))   restR == SubSeq(rp, mm + 1, Len(rp))
      P4[i \in 0..Len(restL)] == IF i = 0 THEN a3 ELSE UnbalancedPok(P4[i-1], restL[i], 1, l, r)
      a4 == P4[Len(restL)]
      P5[i \in 0..Len(restR)] == IF i = 0 THEN a4 ELSE UnbalancedPok(P5[i-1], restR[i], 2, r, l)
      a5 == P5[Len(restR)]
      Unmatched(a, un, from, oVk, oSide) ==
         IF a.fail \/ un = <<>> THEN a
         ELSE IF oVk # NoP THEN [a EXCEPT !.kwo = KwoUpdate(@, un), !.src = AddAll(@, un, from), !.vkSrc[oSide] = FALSE]
         ELSE IF \E i \in DOMAIN un : ~un[i].d THEN [a EXCEPT !.fail = TRUE]
         ELSE a
      a6 == Unmatched(a5, a5.lLimbo, l.src, r.vk, 2)
      a7 == Unmatched(a6, a6.rLimbo, r.src, l.vk, 1)
      (* _add_starargs: returns <<param, src'>> *)
      Star(src, which, x, y) ==
         IF x = NoP \/ y = NoP THEN <<NoP, src>>
         ELSE IF which[1] /\ which[2]
              THEN <<Concile(x, y), SAdd(src, x.n, IF x.n = y.n THEN <<SGet(l.src, x.n), SGet(r.src, x.n)>> ELSE <<SGet(l.src, x.n)>>)>>
         ELSE IF which[1] THEN <<x, SAdd(src, x.n, <<SGet(l.src, x.n)>>)>>
         ELSE <<y, SAdd(src, y.n, <<SGet(r.src, y.n)>>)>>
      sa == Star(a7.src, a7.vaSrc, l.va, r.va)
      sk == Star(sa[2], a7.vkSrc, l.vk, r.vk)
      (* parameters converted to positional-only leave the pok bucket at the end of the pairwise merge *)
      (* (the repair of the n-ary fold defect; without it MergeFold is unsound at arity 3)            *)
      conv == SelectSeq(a7.pok, LAMBDA p : p.k = "po")
      keep == SelectSeq(a7.pok, LAMBDA p : p.k # "po")
  IN IF a7.fail THEN Incompat
     ELSE [tag |-> "sig", pos |-> a7.pos \o conv, pok |-> keep, va |-> sa[1], kwo |-> a7.kwo, vk |-> sk[1],
           src |-> sk[2], depth |-> MergeDepths(l.depth, r.depth)]

(* merge of n signatures: a left fold over *buckets*, as the code does it (the accumulator keeps a parameter in the *)
(* bucket it was put in even when its kind was rewritten), then apply_params.  ss : Seq of sorted signatures.    *)
MergeFold(ss) ==
  LET F[i \in 1..Len(ss)] == IF i = 1 THEN ss[1] ELSE IF ~IsSig(F[i-1]) THEN F[i-1] ELSE Merge2(F[i-1], ss[i])
  IN F[Len(ss)]
MergeN(ss) == Apply(MergeFold(ss))

(* ---- _embed / embed *)
Embed2(o, i, uva, uvk, dep) ==
  LET stars == [tag |-> "sig", pos |-> <<>>, pok |-> <<>>, va |-> IF uva THEN o.va ELSE NoP,
                kwo |-> <<>>, vk |-> IF uvk THEN o.vk ELSE NoP, src |-> Emp, depth |-> Emp]
      m == Merge2(i, stars)
  IN IF ~IsSig(m) THEN Incompat ELSE
  LET hasIPos == m.pos # <<>>
      ePos0 == IF hasIPos THEN o.pos \o [x \in DOMAIN o.pok |-> AsKind(o.pok[x], "po")] ELSE o.pos
      clearPos == IF hasIPos THEN ~m.pos[1].d ELSE (m.pok # <<>> /\ ~m.pok[1].d)
      ePos == (IF clearPos THEN ClearD(ePos0) ELSE ePos0) \o (IF hasIPos THEN m.pos ELSE <<>>)
      ePok == (IF hasIPos THEN <<>> ELSE (IF clearPos THEN ClearD(o.pok) ELSE o.pok)) \o m.pok
      groups == <<o.pos, o.pok, m.pos, m.pok, o.kwo, m.kwo>>
      dup == \E a, b \in 1..6 : a < b /\ SeqNames(groups[a]) \cap SeqNames(groups[b]) # {}
      (* an intermediate result of a fold may have a forwarded star spelled like another of its parameters: the entry is the latter's *)
      kept == SeqNames(o.pos) \cup SeqNames(o.pok) \cup SeqNames(o.kwo)
              \cup (IF o.va # NoP /\ ~uva THEN {o.va.n} ELSE {}) \cup (IF o.vk # NoP /\ ~uvk THEN {o.vk.n} ELSE {})
      popped == ((IF o.va # NoP /\ uva THEN {o.va.n} ELSE {}) \cup (IF o.vk # NoP /\ uvk THEN {o.vk.n} ELSE {})) \ kept
      src == SOver(m.src, SPop(o.src, popped))     \* outer's forwarded stars are dropped from outer's own map first
      depth == MergeDepths(o.depth, [f \in DOMAIN m.depth |-> m.depth[f] + dep])
  IN IF dup THEN Incompat
     ELSE [tag |-> "sig", pos |-> ePos, pok |-> ePok, va |-> IF uva THEN m.va ELSE o.va,
           kwo |-> o.kwo \o m.kwo, vk |-> IF uvk THEN m.vk ELSE o.vk, src |-> src, depth |-> depth]

EmbedFold(ss, uva, uvk) ==
  LET F[i \in 1..Len(ss)] == IF i = 1 THEN ss[1] ELSE IF ~IsSig(F[i-1]) THEN F[i-1] ELSE Embed2(F[i-1], ss[i], uva, uvk, i - 1)
  IN F[Len(ss)]
EmbedN(ss, uva, uvk) == Apply(EmbedFold(ss, uva, uvk))

(* ---- _mask *)
(* names : Seq(name) in the order given;  pm : partial mode;  vals : [name -> default id] bound values;          *)
(* pobj : the partial object's id                                                                                *)
RECURSIVE MaskNames(_, _, _, _, _)
MaskNames(st, names, pm, vals, pobj) ==
  IF st.fail \/ names = <<>> THEN st
  ELSE LET nm == Head(names) IN
    IF nm \in st.consumed THEN [st EXCEPT !.fail = TRUE]
    ELSE IF nm \in st.table THEN
       LET ix == CHOOSE x \in DOMAIN st.pok : st.pok[x].n = nm
           after == SubSeq(st.pok, ix + 1, Len(st.pok))
           kwo1 == KwoUpdate(st.kwo, [x \in DOMAIN after |-> AsKind(after[x], "kwo")])
           kwo2 == IF pm THEN KwoPut(kwo1, [st.pok[ix] EXCEPT !.k = "kwo", !.d = TRUE, !.dv = vals[nm]]) ELSE kwo1
       IN MaskNames([st EXCEPT !.pok = SubSeq(st.pok, 1, ix - 1),
                               !.kwo = kwo2,
                               !.src = SPop(@, (IF pm THEN {} ELSE {nm}) \cup (IF st.va = NoP THEN {} ELSE {st.va.n})),
                               !.va = NoP, !.table = SeqNames(SubSeq(st.pok, 1, ix - 1)), !.consumed = @ \cup {nm}],
                    Tail(names), pm, vals, pobj)
    ELSE IF nm \in SeqNames(st.kwo) THEN
       IF pm THEN MaskNames([st EXCEPT !.kwo = KwoPut(@, [KwoGet(st.kwo, nm) EXCEPT !.d = TRUE, !.dv = vals[nm]]),
                                       !.consumed = @ \cup {nm}], Tail(names), pm, vals, pobj)
       ELSE MaskNames([st EXCEPT !.kwo = KwoDel(@, nm), !.src = SPop(@, {nm}), !.consumed = @ \cup {nm}],
                      Tail(names), pm, vals, pobj)
    ELSE IF st.vk = NoP THEN [st EXCEPT !.fail = TRUE]
    ELSE IF pm THEN MaskNames([st EXCEPT !.kwo = KwoPut(@, [n |-> nm, k |-> "kwo", d |-> TRUE, dv |-> vals[nm], an |-> 0]),
                                         !.src = SSet(@, nm, <<pobj>>), !.consumed = @ \cup {nm}],
                              Tail(names), pm, vals, pobj)
    ELSE MaskNames([st EXCEPT !.consumed = @ \cup {nm}], Tail(names), pm, vals, pobj)

(* the positional and named arguments are consumed (and validated) first, the hide flags then remove what is left *)
MaskS(s, n, names, ha, hk, hva, hvk, pm, vals, pobj) ==
  LET chain == s.pos \o s.pok
      tooMany == n > Len(chain)
      restPos0 == IF n >= Len(s.pos) THEN <<>> ELSE SubSeq(s.pos, n + 1, Len(s.pos))
      usedPok == IF n > Len(s.pos) THEN n - Len(s.pos) ELSE 0
      restPok0 == IF usedPok >= Len(s.pok) THEN <<>> ELSE SubSeq(s.pok, usedPok + 1, Len(s.pok))
      consumed0 == {chain[x].n : x \in 1..(IF tooMany THEN Len(chain) ELSE n)}
      failN == n > 0 /\ tooMany /\ s.va = NoP
      va1 == IF ha \/ hva THEN NoP ELSE s.va
      src1 == SPop(s.src, consumed0 \cup (IF (ha \/ hva) /\ s.va # NoP THEN {s.va.n} ELSE {}))
      st0 == [pok |-> restPok0, kwo |-> s.kwo, va |-> va1, vk |-> s.vk,
              src |-> src1, table |-> SeqNames(s.pok), consumed |-> consumed0, fail |-> FALSE]
      st1 == MaskNames(st0, names, pm, vals, pobj)
      (* hide_args: the positional parameters still there once the n arguments and the names are consumed *)
      restPos == IF ha THEN <<>> ELSE restPos0
      st1h == IF ha /\ ~st1.fail THEN [st1 EXCEPT !.src = SPop(@, SeqNames(restPos0) \cup SeqNames(st1.pok)), !.pok = <<>>] ELSE st1
      st2 == IF hk THEN [st1h EXCEPT !.src = SPop(@, SeqNames(st1h.pok) \cup SeqNames(st1h.kwo)), !.pok = <<>>, !.kwo = <<>>] ELSE st1h
      src2 == IF (hk \/ hvk) /\ st2.vk # NoP THEN SPop(st2.src, {st2.vk.n}) ELSE st2.src
      depth2 == IF pm THEN [f \in DOMAIN s.depth \cup {pobj} |-> IF f = pobj THEN 0 ELSE s.depth[f] + 1] ELSE s.depth
  IN IF failN \/ st1.fail THEN ValErr
     ELSE [tag |-> "sig", pos |-> restPos, pok |-> st2.pok, va |-> st2.va, kwo |-> st2.kwo,
           vk |-> IF hk \/ hvk THEN NoP ELSE st2.vk, src |-> src2, depth |-> depth2]

NoVals == [x \in {} |-> 0]
Mask(s, n, names, ha, hk, hva, hvk) == Apply(MaskS(s, n, names, ha, hk, hva, hvk, FALSE, NoVals, "-"))
(* signatures.signature of a functools.partial object binding n positionals and the keywords vals *)
MaskPartial(s, n, names, vals, pobj) == Apply(MaskS(s, n, names, FALSE, FALSE, FALSE, FALSE, TRUE, vals, pobj))

(* ---- forwards = embed(outer, mask(inner, ...)) *)
Optionalize(ps) == [i \in DOMAIN ps |-> IF ps[i].k \in {"var", "vkw"} THEN ps[i] ELSE [ps[i] EXCEPT !.d = TRUE, !.dv = 1]]
Forwards(o, i, n, names, ha, hk, uva, uvk, partial) ==
  LET i2 == IF partial THEN Sort(Optionalize(Flat(i)), i.src, i.depth) ELSE i
      mk == Mask(i2, n, names, ha, hk, FALSE, FALSE)
  IN IF ~IsSig(mk) THEN mk
     ELSE EmbedN(<<o, SortSig(mk)>>, uva, uvk)
=============================================================================
