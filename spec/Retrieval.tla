------------------------------ MODULE Retrieval ------------------------------
(***************************************************************************)
(* Shared mutable state touched by signature retrieval (C16b, C17, C07):   *)
(*                                                                         *)
(*  * the CLEANUP WINDOW of _autoforwards.cleanup_functools_wrapper: to    *)
(*    read a function's own signature, retrieval saves and DELETES its     *)
(*    __wrapped__ ("W") and __signature__ ("S") attributes, lets           *)
(*    inspect.signature read the object, and restores them on exit;        *)
(*  * the recursion GUARD of specifiers.as_forged: a set of objects whose  *)
(*    signature is being computed; a hit makes __signature__ raise         *)
(*    AttributeError so that inspect falls back to the plain signature.    *)
(*                                                                         *)
(* Threads: kind "retrieve" runs sigtools.signature(f) on the shared       *)
(* function f (the window), kind "inspect" runs inspect.signature(f)       *)
(* (an observer: it only reads), kind "forged" runs inspect.signature(o)   *)
(* on a shared object o whose __signature__ is as_forged (the guard).      *)
(* One action per shared access, in the code's order.  With Faults = TRUE  *)
(* every step that leaves sigtools (attribute getters, the inspect         *)
(* machinery, user forgers) may instead raise: crash points.               *)
(*                                                                         *)
(* Code variants (the model follows the code; the other value documents    *)
(* the pinned behaviour):                                                   *)
(*   EnterSafe  TRUE: a failure while entering the window restores what    *)
(*              was already taken away; FALSE: __exit__ is simply not run  *)
(*   GuardMode  "threadlocal" | "shared"                                   *)
(*   SaveMode   "raw": the window saves the object's own entry as stored   *)
(*              (vars(f)[attr]); "read": the value getattr returns.  They  *)
(*              differ for the attributes in Descr, whose stored entry is  *)
(*              a descriptor (a class whose own __signature__ is           *)
(*              as_forged): "read" puts the COMPUTED value back in place   *)
(*              of the descriptor.                                         *)
(***************************************************************************)
EXTENDS Naturals, FiniteSets, Sequences, TLC

CONSTANTS Threads, Kind, Attrs0, Faults, EnterSafe, GuardMode, SaveMode, Descr

(* scenarios (substituted for Kind in the cfg) *)
Scen_R   == [t \in {1} |-> "retrieve"]
Scen_RR  == [t \in {1, 2} |-> "retrieve"]
Scen_RI  == [t \in {1, 2} |-> IF t = 1 THEN "retrieve" ELSE "inspect"]
Scen_RRR == [t \in {1, 2, 3} |-> "retrieve"]
Scen_RRI == [t \in {1, 2, 3} |-> IF t = 3 THEN "inspect" ELSE "retrieve"]
Scen_F   == [t \in {1} |-> "forged"]
Scen_FF  == [t \in {1, 2} |-> "forged"]
Scen_FFF == [t \in {1, 2, 3} |-> "forged"]

AttrOrder == <<"W", "S">>                     \* cleanup_functools_wrapper.attrs
VARIABLES attrs,      \* attributes currently present on f
          pc, idx,    \* per thread: control point, position in AttrOrder
          saved,      \* per thread: attributes taken away by this thread's window
          content,    \* what the object's dict holds for each attribute: "entry" (what was there initially) | "computed"
          savedval,   \* per thread: the value kept for each saved attribute
          seenS, seenW, result, guard
vars == <<attrs, pc, idx, saved, content, savedval, seenS, seenW, result, guard>>

None == "none"
Init == /\ attrs = Attrs0
        /\ pc = [t \in Threads |-> CASE Kind[t] = "retrieve" -> "save" [] Kind[t] = "inspect" -> "readS" [] OTHER -> "gcheck"]
        /\ idx = [t \in Threads |-> 1] /\ saved = [t \in Threads |-> {}]
        /\ content = [a \in {"W", "S"} |-> "entry"] /\ savedval = [t \in Threads |-> [a \in {"W", "S"} |-> "entry"]]
        /\ seenS = [t \in Threads |-> FALSE] /\ seenW = [t \in Threads |-> FALSE]
        /\ result = [t \in Threads |-> None] /\ guard = {}

(* what inspect.signature answers from what it saw *)
Answer(s, w) == IF s THEN "signature" ELSE IF w THEN "wrapped" ELSE "own"
SeqAnswer(t) == CASE Kind[t] = "retrieve" -> "own"
                  [] Kind[t] = "inspect" -> Answer("S" \in Attrs0, "W" \in Attrs0)
                  [] OTHER -> "forged"

(* ---- the window: __enter__ *)
Save(t) == /\ pc[t] = "save"
           /\ IF idx[t] > Len(AttrOrder) THEN pc' = [pc EXCEPT ![t] = "readS"] /\ UNCHANGED <<idx, saved, savedval>>
              ELSE LET a == AttrOrder[idx[t]] IN
                   IF a \in attrs THEN /\ saved' = [saved EXCEPT ![t] = @ \cup {a}] /\ pc' = [pc EXCEPT ![t] = "del"] /\ UNCHANGED idx
                                        /\ savedval' = [savedval EXCEPT ![t][a] = IF SaveMode = "read" /\ a \in Descr THEN "computed" ELSE content[a]]
                   ELSE idx' = [idx EXCEPT ![t] = @ + 1] /\ UNCHANGED <<pc, saved, savedval>>        \* AttributeError: skipped
           /\ UNCHANGED <<attrs, content, seenS, seenW, result, guard>>
(* the attribute getter raises something else: __enter__ fails, __exit__ is not run by the with statement *)
SaveFails(t) == /\ Faults /\ pc[t] = "save" /\ idx[t] <= Len(AttrOrder)
                /\ IF EnterSafe THEN /\ attrs' = attrs \cup saved[t] /\ saved' = [saved EXCEPT ![t] = {}]
                                     /\ content' = [a \in {"W", "S"} |-> IF a \in saved[t] THEN savedval[t][a] ELSE content[a]]
                   ELSE UNCHANGED <<attrs, saved, content>>
                /\ pc' = [pc EXCEPT ![t] = "raised"]
                /\ UNCHANGED <<idx, savedval, seenS, seenW, result, guard>>
Del(t) == /\ pc[t] = "del"
          /\ attrs' = attrs \ {AttrOrder[idx[t]]}
          /\ idx' = [idx EXCEPT ![t] = @ + 1] /\ pc' = [pc EXCEPT ![t] = "save"]
          /\ UNCHANGED <<saved, content, savedval, seenS, seenW, result, guard>>
(* ---- inspect.signature reading the object (inside the window for a retriever, bare for an observer) *)
ReadS(t) == /\ pc[t] = "readS" /\ seenS' = [seenS EXCEPT ![t] = "S" \in attrs] /\ pc' = [pc EXCEPT ![t] = "readW"]
            /\ UNCHANGED <<attrs, idx, saved, content, savedval, seenW, result, guard>>
ReadW(t) == /\ pc[t] = "readW" /\ seenW' = [seenW EXCEPT ![t] = "W" \in attrs]
            /\ result' = [result EXCEPT ![t] = Answer(seenS[t], "W" \in attrs)]
            /\ pc' = [pc EXCEPT ![t] = IF Kind[t] = "retrieve" THEN "restore" ELSE "done"]
            /\ UNCHANGED <<attrs, idx, saved, content, savedval, seenS, guard>>
ReadFails(t) == /\ Faults /\ pc[t] \in {"readS", "readW"}
                /\ pc' = [pc EXCEPT ![t] = IF Kind[t] = "retrieve" THEN "restore_raising" ELSE "raised"]
                /\ UNCHANGED <<attrs, idx, saved, content, savedval, seenS, seenW, result, guard>>
(* ---- __exit__: runs on the normal and on the exceptional path *)
Restore(t) == /\ pc[t] \in {"restore", "restore_raising"}
              /\ attrs' = attrs \cup saved[t] /\ saved' = [saved EXCEPT ![t] = {}]
              /\ content' = [a \in {"W", "S"} |-> IF a \in saved[t] THEN savedval[t][a] ELSE content[a]]
              /\ pc' = [pc EXCEPT ![t] = IF pc[t] = "restore" THEN "done" ELSE "raised"]
              /\ UNCHANGED <<idx, savedval, seenS, seenW, result, guard>>
(* ---- as_forged.__get__ *)
GKey(t) == IF GuardMode = "shared" THEN "o" ELSE <<"o", t>>
GCheck(t) == /\ pc[t] = "gcheck"
             /\ IF GKey(t) \in guard THEN result' = [result EXCEPT ![t] = "fallback"] /\ pc' = [pc EXCEPT ![t] = "done"] /\ UNCHANGED guard
                ELSE guard' = guard \cup {GKey(t)} /\ pc' = [pc EXCEPT ![t] = "gcompute"] /\ UNCHANGED result
             /\ UNCHANGED <<attrs, idx, saved, content, savedval, seenS, seenW>>
GCompute(t) == /\ pc[t] = "gcompute" /\ result' = [result EXCEPT ![t] = "forged"] /\ pc' = [pc EXCEPT ![t] = "gdiscard"]
               /\ UNCHANGED <<attrs, idx, saved, content, savedval, seenS, seenW, guard>>
GComputeFails(t) == /\ Faults /\ pc[t] = "gcompute" /\ pc' = [pc EXCEPT ![t] = "gdiscard_raising"]
                    /\ UNCHANGED <<attrs, idx, saved, content, savedval, seenS, seenW, result, guard>>
GDiscard(t) == /\ pc[t] \in {"gdiscard", "gdiscard_raising"} /\ guard' = guard \ {GKey(t)}
               /\ pc' = [pc EXCEPT ![t] = IF pc[t] = "gdiscard" THEN "done" ELSE "raised"]
               /\ UNCHANGED <<attrs, idx, saved, content, savedval, seenS, seenW, result>>

Next == \E t \in Threads : Save(t) \/ SaveFails(t) \/ Del(t) \/ ReadS(t) \/ ReadW(t) \/ ReadFails(t) \/ Restore(t)
                           \/ GCheck(t) \/ GCompute(t) \/ GComputeFails(t) \/ GDiscard(t)
Spec == Init /\ [][Next]_vars

Terminal(t) == pc[t] \in {"done", "raised"}
Quiescent == \A t \in Threads : Terminal(t)
(* C16: after retrieval returns or raises, the function has exactly the attributes it had, the guard is empty *)
C16_Restored == Quiescent => (attrs = Attrs0 /\ guard = {} /\ \A a \in Attrs0 : content[a] = "entry")
(* C17: every call returns what it returns when run alone *)
C17_Sequential == \A t \in Threads : pc[t] = "done" => result[t] = SeqAnswer(t)
(* C17: no interleaving leaves the function permanently without an attribute *)
C17_NothingLost == Quiescent => Attrs0 \subseteq attrs
TypeOK == \A t \in Threads : saved[t] \subseteq {"W", "S"}
=============================================================================
