----------------------------- MODULE WrapMachine -----------------------------
(***************************************************************************)
(* Model leg for C13: stacks of decorator functions around a base function.*)
(* A layer is a wrapper function  (func, <own parameters>, + star parameters) *)
(* whose body calls  func with exactly the star parameters it has (func( *args, **kwargs)).*)
(* The signature sigtools reports for the decorated callable is, in the    *)
(* reference model, the fold of SigAlgebra!Forwards from the base outwards. *)
(* Invariant ChainSound: every non-colliding call that this signature       *)
(* accepts runs through the whole chain of CPython bindings                 *)
(* (Wrappers!ChainOutcome) without a TypeError -- soundness of forwards     *)
(* extended from one operation to compositions of depth 1..Depth.           *)
(***************************************************************************)
EXTENDS SigUniverse, SigAlgebra, Wrappers, TLC

CONSTANTS Names, MaxNamed, Depth
Foreign == "zz"
U == Sigs(Names, {"args"}, {"kwargs"}, MaxNamed)
Stars(ps) == HasVar(ps) \/ HasVkw(ps)
Suffix(ps, k) == [i \in DOMAIN ps |-> IF ps[i].k \in {"var", "vkw"} THEN ps[i] ELSE [ps[i] EXCEPT !.n = @ \o ToString(k)]]

VARIABLES layers, base, phase
vars == <<layers, base, phase>>
Init == layers = <<>> /\ base = <<>> /\ phase = "build"
AddLayer == /\ phase = "build" /\ Len(layers) < Depth
            /\ \E ps \in {q \in U : Stars(q)} : layers' = Append(layers, Suffix(ps, Len(layers) + 1))
            /\ UNCHANGED <<base, phase>>
PickBase == /\ phase = "build" /\ layers # <<>>
            /\ \E ps \in U : base' = Suffix(ps, 0)
            /\ phase' = "picked" /\ UNCHANGED layers
(* a separate step with a single successor: in simulation mode TLC evaluates the invariants on EVERY successor it generates *)
Check == phase = "picked" /\ phase' = "done" /\ UNCHANGED <<layers, base>>
Next == AddLayer \/ PickBase \/ Check
Spec == Init /\ [][Next]_vars

Fid(k) == "f" \o ToString(k)
Fresh(ps, k) == [ps |-> ps, src |-> [n \in AllNames(ps) |-> <<Fid(k)>>], depth |-> [f \in {Fid(k)} |-> 0]]
AsSig(x, k) == IF x.tag = "sig" THEN [ps |-> x.ps, src |-> x.src, depth |-> x.depth] ELSE x
(* innermost first: fold Forwards outwards *)
RECURSIVE Report(_, _)
Report(k, inner) ==
  IF k = 0 \/ inner.tag # "sig" THEN inner
  ELSE LET o == layers[k]
           r == Forwards(SortSig(Fresh(o, k)), SortSig(inner), 0, <<>>, FALSE, FALSE, HasVar(o), HasVkw(o), FALSE)
       IN Report(k - 1, r)
Reported == Report(Len(layers), Fresh(base, 0) @@ [tag |-> "sig"])
Layer(k) == [o |-> layers[k], n |-> 0, names |-> {}, uva |-> HasVar(layers[k]), uvk |-> HasVkw(layers[k])]
Chain == [k \in DOMAIN layers |-> Layer(k)]
AllIns == layers \o <<base>>
ChainSound ==
  (phase = "done" /\ Reported.tag = "sig") =>
     \A c \in CallsFor(AllIns, Foreign, 0) :
        (Accepts(Reported.ps, c) /\ NonColliding(c, Reported.ps, AllIns)) => ChainOk(Chain, base, c)
ReportedValid == (phase = "done" /\ Reported.tag = "sig") => ValidSig(Reported.ps)
=============================================================================
