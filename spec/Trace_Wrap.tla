------------------------------ MODULE Trace_Wrap ------------------------------
(***************************************************************************)
(* Trace specification for sigtools.wrappers (C13).                        *)
(* "wrapstack" event: a stack of wrapper functions (outermost first, each  *)
(* (func, <own>, + stars) calling func with n positionals, its star         *)
(* parameters and the written names) made into decorators with             *)
(* wrappers.decorator / wrappers.wrapper_decorator around a base function,  *)
(* placed as function / method / staticmethod.  "combination" event:        *)
(* wrappers.Combination of 1..3 functions.  Each event carries              *)
(*   adv      the reported signature through every retrieval route          *)
(*   calls    EVERY shape of the call set really called: got = what the     *)
(*            sigtools-built callable did, want = what the HAND-WRITTEN     *)
(*            composition of the same functions did (value or exception)    *)
(* Clauses: transparency (got = want, both real), soundness of the reported *)
(* signature on non-colliding calls, method binding, wrappers() listing;    *)
(* DRIFT: Wrappers!ChainOutcome predicted which calls run.                  *)
(***************************************************************************)
EXTENDS Wrappers, Json, IOUtils, TLC, TLCExt

TraceLog == ndJsonDeserialize(IOEnv.TRACE_FILE)
Foreign == "zz"
Rng(q) == {q[i] : i \in DOMAIN q}
Clause(bad, name) == IF bad THEN {name} ELSE {}
VARIABLE l
Shape(c) == [np |-> c.np, kw |-> Rng(c.kw)]
NK(ps) == [i \in DOMAIN ps |-> <<ps[i].n, ps[i].k>>]
SameOutcome(a, b) == a.ok = b.ok /\ (IF a.ok THEN a.val = b.val ELSE a.exc = b.exc)

CommonV(e, ins) ==
  LET sigs == {e.adv[x].ps : x \in {y \in DOMAIN e.adv : e.adv[y].tag = "sig"}}
      complete == /\ e.maxpos >= SumPos(ins) + 1
                  /\ (UNION {NamedNames(ins[x]) : x \in DOMAIN ins} \ {"self", "func"}) \cup {Foreign} \subseteq Rng(e.kwpool)
      workable == \E i \in DOMAIN e.calls : e.calls[i].want.ok
      IsVE(t) == Len(t) >= 10 /\ SubSeq(t, 1, 10) = "valueerror"
  IN   (* a declared forwarding that cannot be honoured may surface as ValueError (C07); a composition that works must be retrievable *)
       Clause(\E x \in DOMAIN e.adv : e.adv[x].tag # "sig" /\ ~IsVE(e.adv[x].tag), "C13_RetrievalRaisedOtherThanValueError")
  \cup Clause(Cardinality(sigs) > 1, "C13_RoutesDisagree")
  \cup Clause(\E i \in DOMAIN e.calls : ~SameOutcome(e.calls[i].got, e.calls[i].want), "C13_ResultDiffersFromHandWrittenComposition")
  (* a composition that no call at all can get through has no honest signature (even the empty parameter list accepts the empty *)
  (* call): soundness is claimed for compositions that work for at least one call                                             *)
  \cup Clause((\E i \in DOMAIN e.calls : e.calls[i].want.ok) /\ \E ps \in sigs : \E i \in DOMAIN e.calls : LET c == Shape(e.calls[i]) IN
                 Accepts(ps, c) /\ NonColliding(c, ps, ins) /\ ~e.calls[i].want.ok /\ e.calls[i].want.exc = "TypeError",
              "C13_AcceptedCallRaisesTypeError")
  \cup Clause(\E i \in DOMAIN e.calls : ~e.calls[i].want.ok /\ e.calls[i].want.exc # "TypeError", "HARNESS_UnexpectedException")
  \cup Clause(~complete, "HARNESS_CallSetIncomplete")

StackV(e) ==
  LET vis(k) == e.layers[k]        \* wrapper parameter lists are logged without the leading `func`
      bound == e.placement = "method"
      ins == e.layers \o <<e.base>>
      chain == [k \in DOMAIN e.layers |-> [o |-> e.layers[k], n |-> e.fls[k].n, names |-> Rng(e.fls[k].names),
                                           uva |-> HasVar(e.layers[k]), uvk |-> HasVkw(e.layers[k])]]
      sigs == {e.adv[x].ps : x \in {y \in DOMAIN e.adv : e.adv[y].tag = "sig"}}
      csigs == {e.on_class[x].ps : x \in {y \in DOMAIN e.on_class : e.on_class[y].tag = "sig"}}
  IN CommonV(e, ins)
  \cup Clause(e.wrappers_listed # e.wrappers_expected, "C13_WrappersListing")
  \cup Clause(bound /\ \E x \in DOMAIN e.on_class : e.on_class[x].tag # "sig" /\ ~(Len(e.on_class[x].tag) >= 10 /\ SubSeq(e.on_class[x].tag, 1, 10) = "valueerror"),
              "C13_RetrievalOnClassRaisedOtherThanValueError")
  (* binding as a method removes exactly the first parameter of the METHOD (the instance), wherever the wrappers' own positional *)
  (* parameters put it in the combined signature                                                                                  *)
  (* (names and kinds are compared: wrapper defaults that had to be dropped in front of the required instance parameter may come back) *)
  (* (a wrapper that itself writes leading positionals consumes the instance parameter on class access: only stacks without) *)
  \cup Clause(bound /\ (\A k \in DOMAIN e.fls : e.fls[k].n = 0) /\ (\E i \in DOMAIN e.calls : e.calls[i].want.ok) /\ \E a \in sigs, b \in csigs : NK(a) # NK(SelectSeq(b, LAMBDA p : p.n # "self")), "C13_MethodBindingRemovesExactlyFirst")
  \cup Clause(\E i \in DOMAIN e.calls : ChainOk(chain, e.base, Shape(e.calls[i])) # e.calls[i].want.ok, "DRIFT_ChainOutcome")

CombV(e) ==
  LET ins == e.funcs IN
  IF ~RoleConsistent(ins) THEN Clause(\E i \in DOMAIN e.calls : ~SameOutcome(e.calls[i].got, e.calls[i].want), "C13_ResultDiffersFromHandWrittenComposition")
  ELSE CommonV(e, ins)

Verdict(e) == CASE e.op = "wrapstack" -> StackV(e) [] e.op = "combination" -> CombV(e) [] OTHER -> {}
Init == l = 1
Next == /\ l <= Len(TraceLog)
        /\ LET e == TraceLog[l] IN \A c \in Verdict(e) : PrintT("FAIL|" \o e.tid \o "|" \o c)
        /\ l' = l + 1
Spec == Init /\ [][Next]_l
TraceAccepted == TLCGet("stats").diameter = Len(TraceLog) + 1
=============================================================================
