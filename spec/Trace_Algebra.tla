---------------------------- MODULE Trace_Algebra ----------------------------
(***************************************************************************)
(* TraceLog specification for the (stateless) algebra family.                 *)
(*                                                                         *)
(* The trace is an ndjson file written by the Python drivers: one event    *)
(* per public call of the REAL code (merge / embed / mask / forwards /     *)
(* signature(partial) / sort+apply), written at its return or raise, with  *)
(* abstracted inputs, flags and outcome.  The spec consumes it line by     *)
(* line (variable l) and evaluates, per event, the contract clauses of the *)
(* families named in Want.  Verdicts are total: a failing clause is        *)
(* printed as  "FAIL|<tid>|<clause>"  and the trace goes on; disagreement  *)
(* with the reference model is printed as "DRIFT|<tid>|<what>".            *)
(* The POSTCONDITION demands that every line was consumed.                 *)
(***************************************************************************)
EXTENDS SigVerdict, Json, IOUtils, TLC, TLCExt

TraceLog == ndJsonDeserialize(IOEnv.TRACE_FILE)

VARIABLE l

Init == l = 1
Next ==
  /\ l <= Len(TraceLog)
  /\ LET e == TraceLog[l]
         fails == Verdict(e)
         drift == IF W("DRIFT") /\ e.op # "law" THEN Drift(e) ELSE {}
     IN /\ \A c \in fails : PrintT("FAIL|" \o e.tid \o "|" \o c)
        /\ \A d \in drift : PrintT("DRIFT|" \o e.tid \o "|" \o d)
  /\ l' = l + 1
Spec == Init /\ [][Next]_l

(* every line was consumed: one state per line plus the initial one *)
TraceAccepted == TLCGet("stats").diameter = Len(TraceLog) + 1
=============================================================================
