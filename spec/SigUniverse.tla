----------------------------- MODULE SigUniverse -----------------------------
(***************************************************************************)
(* The bounded universe of valid signatures, built constructively.         *)
(* Single source of truth: the Python drivers never enumerate signatures   *)
(* themselves, they read what ExportUniverse writes from this definition.  *)
(*                                                                         *)
(* A parameter carries  n (name), k (kind), d (has default),               *)
(*   dv : default-value id  (0 = no default, 1 = the value None,           *)
(*                           >= 2 = distinct sentinel objects)             *)
(*   an : annotation id     (0 = none, >= 1 distinct annotation objects)   *)
(***************************************************************************)
EXTENDS PyBind

P(n, k, d) == [n |-> n, k |-> k, d |-> d, dv |-> IF d THEN 2 ELSE 0, an |-> 0]

InjSeqs(S, k) == {s \in [1..k -> S] : \A i, j \in 1..k : i # j => s[i] # s[j]}
DefSuffix(n)  == {[i \in 1..n |-> i > n - d] : d \in 0..n}

(* every valid flat parameter list with <= MaxNamed named parameters        *)
Sigs(Names, StarV, StarK, MaxNamed) ==
  LET VA == {<<>>} \cup {<<P(v, "var", FALSE)>> : v \in StarV}
      VK == {<<>>} \cup {<<P(v, "vkw", FALSE)>> : v \in StarK}
      raw == UNION { UNION { UNION {
        { [i \in 1..npo |-> P(ns[i], "po", pd[i])]
            \o [i \in 1..npok |-> P(ns[npo + i], "pok", pd[npo + i])]
            \o va
            \o [i \in 1..(k - npo - npok) |-> P(ns[npo + npok + i], "kwo", kd[i])]
            \o vk
          : pd \in DefSuffix(npo + npok), kd \in [1..(k - npo - npok) -> BOOLEAN],
            va \in VA, vk \in VK, ns \in InjSeqs(Names, k) }
        : npok \in 0..(k - npo) } : npo \in 0..k } : k \in 0..MaxNamed }
  IN {ps \in raw : ValidSig(ps)}

(* metadata extension (C10): every defaulted parameter takes a default id   *)
(* from DVs, every parameter an annotation id from ANs                      *)
RECURSIVE MetaVariants(_, _, _)
MetaVariants(ps, DVs, ANs) ==
  IF ps = <<>> THEN {<<>>}
  ELSE LET h == Head(ps)
           hs == IF h.k \in {"var", "vkw"} THEN {h}      \* star parameters stay un-annotated (bounds the universe)
                 ELSE {[h EXCEPT !.dv = IF h.d THEN v ELSE 0, !.an = a] : v \in DVs, a \in ANs}
       IN {<<x>> \o rest : x \in hs, rest \in MetaVariants(Tail(ps), DVs, ANs)}
SigsMeta(Names, StarV, StarK, MaxNamed, DVs, ANs) ==
  UNION {MetaVariants(ps, DVs, ANs) : ps \in Sigs(Names, StarV, StarK, MaxNamed)}
=============================================================================
