----------------------------- MODULE Trace_Corpus -----------------------------
(***************************************************************************)
(* Trace specification for retrieval over a corpus of real callables (C07).*)
(* One event per object:                                                    *)
(*   insp     outcome of inspect.signature(obj): sig + parameter list, or   *)
(*            the exception class                                           *)
(*   routes   outcomes of sigtools.signature (auto on / off) and            *)
(*            signatures.signature, with `upgraded`                         *)
(*   plainfn  the object is a plain function or method (no declared forger, *)
(*            __signature__ or __wrapped__); own = its own def's parameters *)
(*   sphinx   what the autodoc hook returned next to the string forms of    *)
(*            the evaluated signature (both real), or the exception class   *)
(* Narrowing is decided on the COMPLETE call set when the signature has at  *)
(* most MaxNames names (larger ones: positional prefixes x keyword subsets  *)
(* of size <= 2, flagged in the event).                                     *)
(***************************************************************************)
EXTENDS PyBind, Json, IOUtils, TLC, TLCExt

TraceLog == ndJsonDeserialize(IOEnv.TRACE_FILE)
Foreign == "zz"
Clause(bad, name) == IF bad THEN {name} ELSE {}
VARIABLE l

Calls(e, ps) == IF e.small THEN CallsFor(<<e.own, ps>>, Foreign, 0)
                ELSE LET N == AllNames(e.own) \cup AllNames(ps) \cup {Foreign}
                         Small == {{}} \cup {{a} : a \in N} \cup {{a, b} : a \in N, b \in N}      \* never SUBSET N: 2^30 for real-world signatures
                     IN [np : 0..(Len(Posi(e.own)) + Len(Posi(ps)) + 1), kw : Small]
ObjV(e) ==
  LET rs == e.routes IN
       Clause(e.insp.tag = "sig" /\ \E r \in DOMAIN rs : rs[r].tag # "sig" /\ ~(rs[r].declared /\ rs[r].exc = "ValueError"), "C07_RaisesWhereInspectSucceeds")
  \cup Clause(e.insp.tag # "sig" /\ \E r \in DOMAIN rs : rs[r].tag = "raise" /\ rs[r].exc # e.insp.exc /\ ~(rs[r].declared /\ rs[r].exc = "ValueError"),
              "C07_RaisesAnotherExceptionThanInspect")
  \cup Clause(\E r \in DOMAIN rs : rs[r].tag = "sig" /\ ~rs[r].upgraded, "C07_ResultNotUpgraded")
  \cup Clause(e.plainfn /\ \E r \in DOMAIN rs : rs[r].tag = "sig" /\ rs[r].ps # e.own /\
                 \E c \in Calls(e, rs[r].ps) : Accepts(rs[r].ps, c) /\ NonColliding(c, rs[r].ps, <<e.own>>) /\ ~Accepts(e.own, c),
              "C07_WidensOwnSignature")
  \cup Clause(e.sphinx.tag = "raise", "C07_SphinxHookRaised")
  \cup Clause(e.sphinx.tag = "ok" /\ e.sphinx.expected # "-" /\ e.sphinx.got # e.sphinx.expected, "C07_SphinxHookNotTheEvaluatedSignature")

(* "rec": the object is the root of a generated call graph of forwarding functions (spec/Recursion.tla): the analyses the real guard let  *)
(* start, in order, next to the behaviour of the model.  A difference is a note (another guard may be total as well); not coming back is *)
(* reported by the routes (Timeout)                                                                                                     *)
RecV(e) == IF "rec" \in DOMAIN e THEN Clause(e.rec.real # e.rec.model, "DRIFT_RecursionTraceDiffersFromModel") ELSE {}
Verdict(e) == IF e.op = "obj" THEN ObjV(e) \cup RecV(e) ELSE {}
Init == l = 1
Next == /\ l <= Len(TraceLog)
        /\ LET e == TraceLog[l] IN \A c \in Verdict(e) : PrintT("FAIL|" \o e.tid \o "|" \o c)
        /\ l' = l + 1
Spec == Init /\ [][Next]_l
TraceAccepted == TLCGet("stats").diameter = Len(TraceLog) + 1
=============================================================================
