------------------------- MODULE SigMachinePartial -------------------------
(***************************************************************************)
(* Model leg for C19: signatures.signature(functools.partial(f, ...)) is   *)
(* _mask in partial mode.  Pick a universe function, a number of bound     *)
(* positionals and a set of bound keywords (with distinct value ids); the  *)
(* result must accept exactly the shapes the partial object accepts        *)
(* (PartialAccepts: call keywords override bound ones).                    *)
(***************************************************************************)
EXTENDS SigUniverse, SigVerdict, TLC, Json
CONSTANTS Names, StarV, StarK, MaxNamed, MaxNames
U == Sigs(Names, StarV, StarK, MaxNamed)
VARIABLES reg, fl, res
vars == <<reg, fl, res>>
None == [tag |-> "none"]
Fresh(ps) == [ps |-> ps, src |-> [n \in AllNames(ps) |-> <<"f1">>], depth |-> [f \in {"f1"} |-> 0], hasdepths |-> TRUE]
Flags0 == [n |-> 0, names |-> <<>>, vals |-> NoVals, pobj |-> "p1"]
Init == reg = None /\ fl = Flags0 /\ res = None
Load(ps) == reg = None /\ reg' = Fresh(ps) /\ UNCHANGED <<fl, res>>
NameSeqs(ps) == UNION {InjSeqs(NamedNames(ps) \cup {Foreign}, k) : k \in 0..MaxNames}
DoPartial ==
  /\ reg # None /\ res = None
  /\ \E nb \in 0..(Len(Posi(reg.ps)) + 1), nm \in NameSeqs(reg.ps) :
        LET vals == [k \in Rng(nm) |-> 10 + (CHOOSE i \in DOMAIN nm : nm[i] = k)] IN
        /\ fl' = [Flags0 EXCEPT !.n = nb, !.names = nm, !.vals = vals]
        /\ res' = MaskPartial(SortSig(reg), nb, nm, vals, "p1")
  /\ UNCHANGED reg
Next == (\E ps \in U : Load(ps)) \/ DoPartial
Spec == Init /\ [][Next]_vars

Done == res # None
ModelFails ==
  LET f == reg.ps  kb == Rng(fl.names)  Calls == CallsFor(<<f>>, Foreign, 0) IN
  IF kb \cap PoNames(f) # {} THEN {}
  ELSE IF res.tag = "sig" THEN Clause(~C19_Exact(f, fl.n, kb, res.ps, Calls), "C19_Exact")
                               \cup Clause(~ValidSig(res.ps), "C15_ValidSig")
  ELSE Clause(\E c \in Calls : PartialAccepts(f, fl.n, kb, c), "C19_RaisesOnlyIfUncallable")
Inv_C19 == Done => ModelFails = {}
Report == IF Done THEN \A c \in ModelFails : PrintT("CEX|" \o c \o "|" \o ToJson([ins |-> <<reg.ps>>, fl |-> [n |-> fl.n, names |-> fl.names]]))
          ELSE TRUE
=============================================================================
