------------------------------ MODULE ModOrder ------------------------------
(***************************************************************************)
(* Order part of C18: kwoargs / posoargs / autokwoargs applied one after   *)
(* the other to the same function.  Each application accumulates name sets *)
(* exactly as _PokTranslator._merge_other does (union) and re-runs         *)
(* _prepare on the union; autokwoargs reads the CURRENTLY advertised       *)
(* signature.  A step is enabled only if the real decorator would not      *)
(* raise ValueError (the order is admissible up to there).                 *)
(* Invariant OrderIndep: the accumulated selection is a function of the    *)
(* SET of steps applied -- whatever admissible order led there.            *)
(***************************************************************************)
EXTENDS SigUniverse, ModifiersCore

CONSTANTS Names, MaxNamed, MaxSteps
Bases == Sigs(Names, {"args"}, {"kwargs"}, MaxNamed)
NameSets == {S \in SUBSET Names : Cardinality(S) <= 2}
Steps == {[kind |-> k, names |-> S] : k \in {"kwo", "po"}, S \in NameSets \ {{}}} \cup {[kind |-> "auto", names |-> S] : S \in NameSets}

VARIABLES base, sel, applied, phase
vars == <<base, sel, applied, phase>>
Init == base = <<>> /\ sel = Sel0 /\ applied = {} /\ phase = "base"
PickBase == phase = "base" /\ \E b \in Bases : base' = b /\ phase' = "steps" /\ UNCHANGED <<sel, applied>>
NewSel(s) ==
  CASE s.kind = "kwo" -> [tag |-> "ok", po |-> sel.po, kwo |-> sel.kwo \cup s.names]
    [] s.kind = "po"  -> [tag |-> "ok", po |-> sel.po \cup s.names, kwo |-> sel.kwo]
    [] s.kind = "auto" -> LET a == AutoForm(Prepare(base, sel.po, sel.kwo).adv, s.names) IN
                          IF a.tag = "ok" THEN [tag |-> "ok", po |-> sel.po, kwo |-> sel.kwo \cup a.kwo] ELSE a
ApplyStep(s) == /\ phase = "steps" /\ Cardinality(applied) < MaxSteps /\ s \notin applied
                /\ LET n == NewSel(s) IN
                   /\ n.tag = "ok" /\ Prepare(base, n.po, n.kwo).tag = "ok"
                   /\ sel' = [po |-> n.po, kwo |-> n.kwo]
                /\ applied' = applied \cup {s} /\ UNCHANGED <<base, phase>>
Next == PickBase \/ \E s \in Steps : ApplyStep(s)
Spec == Init /\ [][Next]_vars

TypeOK == phase = "steps" => Prepare(base, sel.po, sel.kwo).tag = "ok"
PokDefaulted == {base[i].n : i \in {j \in DOMAIN base : base[j].k = "pok" /\ base[j].d}}
Expected(S) ==
  LET po == UNION {s.names : s \in {t \in S : t.kind = "po"}}
      kw == UNION {s.names : s \in {t \in S : t.kind = "kwo"}}
      au == UNION {PokDefaulted \ s.names : s \in {t \in S : t.kind = "auto"}}
  IN [po |-> po, kwo |-> kw \cup (au \ po)]
OrderIndep == phase = "steps" => sel = Expected(applied)
=============================================================================
