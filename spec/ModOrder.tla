------------------------------ MODULE ModOrder ------------------------------
(***************************************************************************)
(* Order part of C18: kwoargs / posoargs / autokwoargs applied one after   *)
(* the other to the same function.  Each application accumulates name sets *)
(* exactly as _PokTranslator._merge_other does (union) and re-runs         *)
(* _prepare on the union; autokwoargs reads the CURRENTLY advertised       *)
(* signature.  A step is enabled only if the real decorator would not      *)
(* raise ValueError (the order is admissible up to there).                 *)
(* Invariant OrderIndep: the accumulated selection is a function of the    *)
(* SET of steps applied -- whatever admissible order led there.            *)
(***************************************************************************)
EXTENDS SigUniverse, ModifiersCore

CONSTANTS Names, MaxNamed, MaxSteps, RangeForms
Bases == Sigs(Names, {"args"}, {"kwargs"}, MaxNamed)
NameSets == {S \in SUBSET Names : Cardinality(S) <= 2}
Steps == {[kind |-> k, names |-> S] : k \in {"kwo", "po"}, S \in NameSets \ {{}}} \cup {[kind |-> "auto", names |-> S] : S \in NameSets}
         \cup (IF RangeForms THEN {[kind |-> k, names |-> {n}] : k \in {"start", "end"}, n \in Names} ELSE {})

VARIABLES base, sel, applied, phase
vars == <<base, sel, applied, phase>>
Init == base = <<>> /\ sel = Sel0 /\ applied = {} /\ phase = "base"
PickBase == phase = "base" /\ \E b \in Bases : base' = b /\ phase' = "steps" /\ UNCHANGED <<sel, applied>>
(* one application on top of the accumulated selection r; the range forms kwoargs(start=s) / posoargs(end=e) and autokwoargs read the *)
(* CURRENTLY advertised signature *)
NewSelOn(b, r, s) ==
  CASE s.kind = "kwo" -> [tag |-> "ok", po |-> r.po, kwo |-> r.kwo \cup s.names]
    [] s.kind = "po"  -> [tag |-> "ok", po |-> r.po \cup s.names, kwo |-> r.kwo]
    [] s.kind = "auto" -> LET a == AutoForm(Prepare(b, r.po, r.kwo).adv, s.names) IN
                          IF a.tag = "ok" THEN [tag |-> "ok", po |-> r.po, kwo |-> r.kwo \cup a.kwo] ELSE a
    [] s.kind = "start" -> LET a == StartForm(Prepare(b, r.po, r.kwo).adv, CHOOSE n \in s.names : TRUE, {}) IN
                          IF a.tag = "ok" THEN [tag |-> "ok", po |-> r.po, kwo |-> r.kwo \cup a.kwo] ELSE a
    [] s.kind = "end" -> LET a == EndForm(Prepare(b, r.po, r.kwo).adv, CHOOSE n \in s.names : TRUE, {}) IN
                          IF a.tag = "ok" THEN [tag |-> "ok", po |-> r.po \cup a.po, kwo |-> r.kwo] ELSE a
NewSel(s) == NewSelOn(base, sel, s)
ApplyStep(s) == /\ phase = "steps" /\ Cardinality(applied) < MaxSteps /\ s \notin applied
                /\ LET n == NewSel(s) IN
                   /\ n.tag = "ok" /\ Prepare(base, n.po, n.kwo).tag = "ok"
                   /\ sel' = [po |-> n.po, kwo |-> n.kwo]
                /\ applied' = applied \cup {s} /\ UNCHANGED <<base, phase>>
Next == PickBase \/ \E s \in Steps : ApplyStep(s)
Spec == Init /\ [][Next]_vars

TypeOK == phase = "steps" => Prepare(base, sel.po, sel.kwo).tag = "ok"
PokDefaulted == {base[i].n : i \in {j \in DOMAIN base : base[j].k = "pok" /\ base[j].d}}
Expected(S) ==
  LET po == UNION {s.names : s \in {t \in S : t.kind = "po"}}
      kw == UNION {s.names : s \in {t \in S : t.kind = "kwo"}}
      au == UNION {PokDefaulted \ s.names : s \in {t \in S : t.kind = "auto"}}
  IN [po |-> po, kwo |-> kw \cup (au \ po)]
IsRange(t) == t.kind \in {"start", "end"}
OrderIndep == (phase = "steps" /\ ~\E t \in applied : IsRange(t)) => sel = Expected(applied)
(* with range forms the selection is no function of the steps resolved on the base (posoargs(end=c) over kwoargs(b) selects a and c), but it *)
(* is still a function of the SET of steps: every admissible order of the same set reaches the same selection *)
RECURSIVE Reach(_, _)
Reach(b, S) ==
  IF S = {} THEN {Sel0}
  ELSE UNION {{[po |-> n.po, kwo |-> n.kwo] : n \in {m \in {NewSelOn(b, r, s) : r \in Reach(b, S \ {s})} : m.tag = "ok" /\ Prepare(b, m.po, m.kwo).tag = "ok"}} : s \in S}
OrderIndepSet == phase = "steps" => Reach(base, applied) = {sel}
=============================================================================
