----------------------------- MODULE Trace_Exec -----------------------------
(***************************************************************************)
(* Trace specification for EXECUTED programs (C04 declared forwarding,     *)
(* C13 decorators, and the one-call grid shared with C05/C06).             *)
(*                                                                         *)
(* One event per generated program: the wrapper's own parameter list o,    *)
(* the callee's i, how the forwarding call is written (n, names, uva, uvk),*)
(* how it is declared, the signature(s) the real sigtools REPORTED for it, *)
(* and what REALLY happened when the program was called with every shape   *)
(* of the call set: the shapes that raised a binding TypeError in the      *)
(* wrapper (bad_outer) or at the forwarded call (bad_inner); every other   *)
(* shape ran.  TLC recomputes Accepts(reported, c) for every shape.        *)
(***************************************************************************)
EXTENDS Wrappers, Json, IOUtils, TLC, TLCExt

TraceLog == ndJsonDeserialize(IOEnv.TRACE_FILE)
Foreign == "zz"
Rng(q) == {q[i] : i \in DOMAIN q}
Clause(bad, name) == IF bad THEN {name} ELSE {}
VARIABLE l

Shapes(q) == {[np |-> q[x].np, kw |-> Rng(q[x].kw)] : x \in DOMAIN q}
(* keywords range over the NAMED parameters and one foreign name: a star parameter's own name used as a keyword is *)
(* colliding by definition, so leaving it out loses no non-colliding shape                                         *)
CallsNamed(sigs, extra) ==
  [np : 0..(SumPos(sigs) + 1 + extra), kw : SUBSET (UNION {NamedNames(sigs[x]) : x \in DOMAIN sigs} \cup {Foreign})]

FwdProgV(e) ==
  LET o == e.o  i == e.i  fl == e.fl  names == Rng(fl.names)
      oEff == IF e.bound THEN DropFirst(o) ELSE o           \* what a caller of the (bound) wrapper can pass
      (* the executed call set is logged (maxpos, kwpool); it must cover the complete set -- except the keyword "self", *)
      (* which only ever collides with the instance argument the harness itself supplies                              *)
      Calls == [np : 0..e.maxpos, kw : SUBSET Rng(e.kwpool)]
      complete == \/ e.skipexec      \* a placement whose call set is deliberately restricted (the callee parameter must keep its default)
                  \/ /\ e.maxpos >= SumPos(<<oEff, i>>) + 1 + fl.n
                     /\ ((NamedNames(oEff) \cup NamedNames(i) \cup {Foreign}) \ {"self"}) \subseteq Rng(e.kwpool)
      badO == Shapes(e.bad_outer)  badI == Shapes(e.bad_inner)  bad == badO \cup badI
      rep == e.reported
      simple == ~(fl.ha \/ fl.hk \/ fl.partial) /\ ~e.nomodel /\ ~\E x \in PosIdx(oEff) : oEff[x].d
      (* with hide flags the written call passes further, unknown star arguments: the model cannot predict them *)
      predictable == ~(fl.ha \/ fl.hk \/ fl.partial) /\ ~e.skipexec /\ ~e.starfree_only /\ ~e.nomodel
      (* placements whose real callee is, by construction, not what anything visible says: a star parameter of the report promises *)
      (* nothing there; only call shapes that put nothing into a star are decided by execution                                    *)
      decidable(c) == e.starfree_only => (c.np <= Len(Posi(rep.ps)) /\ c.kw \subseteq KwPassable(rep.ps))
  IN
       Clause(predictable /\ \E c \in Calls : ExecOutcome(oEff, i, fl.n, names, fl.uva, fl.uvk, c)
                                               # (IF c \in badO THEN "outer" ELSE IF c \in badI THEN "inner" ELSE "ok"), "MODEL_ExecOutcome")
  \cup (IF rep.tag = "sig" /\ ~(e.allow_fallback /\ e.plain.tag = "sig" /\ e.plain.ps = rep.ps) THEN
            Clause(\E c \in Calls : /\ Accepts(rep.ps, c) /\ NonColliding(c, rep.ps, <<oEff, i>>) /\ c.kw \cap names = {} /\ decidable(c)
                                    /\ c \in bad, "C04_AcceptedCallRaisesTypeError")
       \cup Clause(simple /\ ~e.starfree_only /\ \E c \in Calls : /\ ~Accepts(rep.ps, c) /\ NonColliding(c, rep.ps, <<oEff, i>>) /\ c.kw \cap names = {}
                                              /\ c \notin bad, "C04_RejectedCallRuns")
       \cup Clause(fl.partial /\ \E c \in Calls : /\ ~Accepts(rep.ps, c) /\ NonColliding(c, rep.ps, <<oEff, i>>) /\ c.kw \cap names = {}
                                                  /\ c \notin badO
                                                  /\ LET sh == InnerShape(oEff, c, fl.n, names, fl.uva, fl.uvk)
                                                         iopt == [x \in DOMAIN i |-> IF i[x].k \in {"var", "vkw"} THEN i[x] ELSE [i[x] EXCEPT !.d = TRUE]]
                                                     IN ~sh.dup /\ Accepts(iopt, [np |-> sh.np, kw |-> sh.kw]), "C04_PartialRejectsMoreThanSurplus")
        ELSE {})
  (* C06: discovery agrees with the equivalent explicit declaration (real vs real); where the declaration itself cannot be *)
  (* honoured (ValueError) or nothing is forwarded, the plain signature is reported                                        *)
  \cup (IF e.agree = "none" THEN {}
        ELSE IF e.declared.tag = "sig" /\ ((fl.uva /\ HasVar(o)) \/ (fl.uvk /\ HasVkw(o))) THEN
               Clause(rep.tag # "sig" \/ rep.ps # e.declared.ps, "C06_DiscoveredParamsDifferFromDeclared")
               \cup Clause(e.agree = "all" /\ rep.tag = "sig" /\ rep.ps = e.declared.ps
                             /\ (rep.src # e.declared.src \/ rep.depth # e.declared.depth), "C06_DiscoveredProvenanceDiffersFromDeclared")
        ELSE Clause(rep.tag # "sig" \/ e.plain.tag # "sig" \/ rep.ps # e.plain.ps, "C06_FallbackIsNotPlainSignature"))
  \cup Clause(e.auto /\ rep.tag # "sig", "C07_RetrievalRaised")
  \cup Clause(e.other_exc # <<>>, "HARNESS_UnexpectedException")
  \cup Clause(~complete, "HARNESS_CallSetIncomplete")
  \cup Clause(\E x \in DOMAIN e.others : e.others[x].tag # rep.tag \/ (rep.tag = "sig" /\ e.others[x].ps # rep.ps), "C04_RoutesDisagree")

Verdict(e) == CASE e.op = "fwdprog" -> FwdProgV(e)
                [] OTHER -> {}

Init == l = 1
Next == /\ l <= Len(TraceLog)
        /\ LET e == TraceLog[l] IN \A c \in Verdict(e) : PrintT("FAIL|" \o e.tid \o "|" \o c)
        /\ l' = l + 1
Spec == Init /\ [][Next]_l
TraceAccepted == TLCGet("stats").diameter = Len(TraceLog) + 1
=============================================================================
