--------------------------- MODULE Trace_Retrieval ---------------------------
(***************************************************************************)
(* Monitor for runs of signature retrieval on shared objects (C16b, C17).  *)
(* One trace line = one run: the hook events in their real order           *)
(*    WindowEnter / Save / Del / Restore / WindowExit   (cleanup window)   *)
(*    GuardAdd / GuardDiscard / GuardHit                (as_forged guard)  *)
(*    CallStart / CallEnd                               (harness marks)    *)
(* each with the thread that emitted it, the attribute snapshots of the    *)
(* watched objects before and after, the guard size afterwards, and every  *)
(* call's result next to the result of the same call run alone.            *)
(* The monitor mirrors the abstract shared state of spec/Retrieval.tla     *)
(* (which attributes each thread's open window has taken away, the guard)  *)
(* from the events and checks OBLIGATIONS; it does not require the control *)
(* flow to follow the behavioural model step for step (that is DRIFT).     *)
(***************************************************************************)
EXTENDS Naturals, Sequences, FiniteSets, SequencesExt, Json, IOUtils, TLC, TLCExt

TraceLog == ndJsonDeserialize(IOEnv.TRACE_FILE)
Clause(bad, name) == IF bad THEN {name} ELSE {}
VARIABLE l

St0 == [removed |-> {}, guard |-> {}, fails |-> {}]
Step(st, x) ==
  CASE x.ev = "Del" -> [st EXCEPT !.removed = @ \cup {<<x.t, x.obj, x.attr>>}]
    [] x.ev = "Restore" -> [st EXCEPT !.removed = @ \ {<<x.t, x.obj, x.attr>>},
                                       !.fails = @ \cup Clause(<<x.t, x.obj, x.attr>> \notin st.removed, "DRIFT_RestoreWithoutDelete")]
    [] x.ev = "WindowExit" -> [st EXCEPT !.fails = @ \cup Clause(\E r \in st.removed : r[1] = x.t /\ r[2] = x.obj, "C16_WindowLeftWithoutRestoring")]
    [] x.ev = "GuardAdd" -> [st EXCEPT !.guard = @ \cup {<<x.t, x.obj>>}]
    [] x.ev = "GuardDiscard" -> [st EXCEPT !.guard = @ \ {<<x.t, x.obj>>}]
    [] x.ev = "CallEnd" -> [st EXCEPT !.fails = @ \cup Clause(\E g \in st.guard : g[1] = x.t, "C16_GuardEntryOutlivesItsCall")
                                                   \cup Clause(\E r \in st.removed : r[1] = x.t, "C16_CallEndedWithAttributeStillRemoved")]
    [] OTHER -> st
(* (a left fold: stress traces have a thousand events, too deep for a recursive operator) *)
Walk(ev) == FoldLeft(Step, St0, ev)

(* indices of events *)
Idx(ev, t, name) == {k \in DOMAIN ev : ev[k].t = t /\ ev[k].ev = name}
MinOf(S) == CHOOSE x \in S : \A y \in S : x <= y
MaxOf(S) == CHOOSE x \in S : \A y \in S : x >= y
(* some other thread had an attribute of a shared object taken away while thread t's call was running *)
WindowOpenDuring(ev, t) ==
  \E d \in DOMAIN ev : /\ ev[d].ev = "Del" /\ ev[d].t # t
     /\ LET rs == {r \in DOMAIN ev : r > d /\ ev[r].ev = "Restore" /\ ev[r].t = ev[d].t /\ ev[r].obj = ev[d].obj /\ ev[r].attr = ev[d].attr}
            close == IF rs = {} THEN Len(ev) + 1 ELSE MinOf(rs)
            starts == Idx(ev, t, "CallStart")  ends == Idx(ev, t, "CallEnd")
        IN starts # {} /\ MinOf(starts) < close /\ (ends = {} \/ MaxOf(ends) > d)

RunV(e) ==
  LET st == Walk(e.events) IN
       st.fails
  \cup Clause(st.removed # {}, "C16_DeletedAttributeNeverRestored")
  \cup Clause(e.before # e.after, "C16_AttributesDifferAfterwards")
  \cup Clause(e.changed # <<>>, "C16_AttributeValueReplaced")
  \cup Clause(e.guard_after # 0, "C16_GuardNotEmptyAfterwards")
  \cup Clause(e.kind = "crash" /\ \E r \in DOMAIN e.results : e.results[r].again # e.results[r].alone, "C16_RetrievalDiffersAfterFault")
  \cup (IF e.kind # "sched" THEN {} ELSE
          UNION {IF e.results[r].res = e.results[r].alone THEN {}
                 ELSE IF WindowOpenDuring(e.events, e.results[r].t) /\ ~e.results[r].raised THEN {"C17_NotSequential_WindowOpenElsewhere"}   \* a wrong SIGNATURE (known finding)
                 ELSE {"C17_NotSequential"} : r \in DOMAIN e.results})
  (* the order inside every window is the code's: an attribute is saved before it is deleted *)
  \cup Clause(\E d \in DOMAIN e.events : e.events[d].ev = "Del" /\
                 ~\E s \in 1..(d-1) : e.events[s].ev = "Save" /\ e.events[s].t = e.events[d].t /\ e.events[s].obj = e.events[d].obj /\ e.events[s].attr = e.events[d].attr,
              "DRIFT_DeleteWithoutSave")

Verdict(e) == IF e.op = "run" THEN RunV(e) ELSE {}
Init == l = 1
Next == /\ l <= Len(TraceLog)
        /\ LET e == TraceLog[l] IN \A c \in Verdict(e) : PrintT("FAIL|" \o e.tid \o "|" \o c)
        /\ l' = l + 1
Spec == Init /\ [][Next]_l
TraceAccepted == TLCGet("stats").diameter = Len(TraceLog) + 1
=============================================================================
