------------------------------- MODULE AutoFwd -------------------------------
(***************************************************************************)
(* Model leg for automatic discovery (C05, C06): a state machine whose     *)
(* BEHAVIOURS ARE PROGRAMS.  Emit(s) appends one statement to the body of  *)
(* the function under analysis and applies its effect on the walker's      *)
(* namespace machine and on the runtime ghost (AutoFwdCore!Step); Finish   *)
(* processes the deferred calls and runs the late nested functions.        *)
(* Invariant C05_Model: no forwarding call that the walker reports as      *)
(* using a star parameter is ever executed with that star not pristine.    *)
(* Every finished behaviour is exported (one JSON line) and replayed into  *)
(* the real code: rendered to Python, analysed by the real                 *)
(* CallListerVisitor, retrieved through sigtools.signature and executed.   *)
(***************************************************************************)
EXTENDS AutoFwdCore, TLC, Json

CONSTANTS MaxStmts,
          Fixed        \* BOOLEAN: the model follows the code (TRUE) -- see Emit; FALSE explores the walker as first transcribed

VARIABLES prog, st, done
vars == <<prog, st, done>>

Init == prog = <<>> /\ st = St0 /\ done = FALSE

Emit(s) == /\ ~done /\ Len(prog) < MaxStmts
           /\ prog' = Append(prog, s)
           /\ st' = Step(st, s, Len(prog) + 1)
           /\ UNCHANGED done
End == /\ ~done /\ prog # <<>>
       /\ st' = Finish(st) /\ done' = TRUE /\ UNCHANGED prog

Next == (\E s \in Stmts : Emit(s)) \/ End
Spec == Init /\ [][Next]_vars

C05_Model == done => Sound(st)
TypeOK == /\ st.mA \in {"arg", "unk"} /\ st.mK \in {"arg", "unk"}
          /\ \A i \in DOMAIN st.calls : ~(st.calls[i].useA /\ st.calls[i].hideA) /\ ~(st.calls[i].useK /\ st.calls[i].hideK)
(* once a marker is Unknown it stays Unknown; a pristine bit never comes back *)
Monotone == [][/\ (st.mA = "unk" => st'.mA = "unk") /\ (st.mK = "unk" => st'.mK = "unk")
               /\ (~st.rtA => ~st'.rtA) /\ (~st.rtK => ~st'.rtK)
               /\ (st.tA => st'.tA) /\ (st.tK => st'.tK)]_vars

(* the statement alphabet, for the program drivers (single source of truth) *)
ASSUME PrintT("STMTS|" \o ToJson(Stmts))

(* export: evaluated as a constraint so that it never fails *)
Export == IF done THEN PrintT("BEH|" \o ToJson([prog |-> prog, calls |-> st.calls, execs |-> st.execs, sound |-> Sound(st)])) ELSE TRUE
=============================================================================
