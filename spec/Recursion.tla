----------------------------- MODULE Recursion -----------------------------
(***************************************************************************)
(* The recursion of automatic discovery over a CALL GRAPH of forwarding    *)
(* functions (C07: retrieval is total -- it comes back).                   *)
(*                                                                         *)
(* Analysing a forwarding function analyses the callees of its forwarding  *)
(* calls, in source order, with the arguments the call writes in front of  *)
(* the forwarded stars added to the arguments already known.  The code     *)
(* (_autoforwards.autoforwards_function) guards this recursion with        *)
(*   * the set of analyses IN PROGRESS, keyed (function, known arguments): *)
(*     a key met again is cut (KeyMode "func+args"; the pinned tree had no *)
(*     guard at all: "none"; a guard keyed on the function alone, "func",  *)
(*     cuts legitimate chains that re-enter a function with other          *)
(*     arguments);                                                         *)
(*   * a bound on the DEPTH of the recursion (calls that add an argument   *)
(*     at every level never repeat a key);                                 *)
(*   * a bound on the number of analyses per retrieval (VISITS): with two  *)
(*     such calls per function the depth bound alone allows 2^Depth.       *)
(* A cut analysis answers "unknown": the caller uses the callee's plain    *)
(* signature and goes on with its next call.                               *)
(*                                                                         *)
(* The graph is chosen in Init (every graph over Funcs with at most        *)
(* MaxCalls calls per function, each to a function or to the leaf "t",     *)
(* writing 0 or 1 additional argument); the analysis itself is             *)
(* deterministic.  The sequence of analyses STARTED (function, number of   *)
(* known arguments) is the behaviour compared with the real code.          *)
(***************************************************************************)
EXTENDS Naturals, Sequences, FiniteSets, TLC, Json

CONSTANTS Funcs, Root, MaxCalls, DepthBound, VisitBudget, KeyMode, Export, StepBound

Leaf == "t"
CallRec == [callee : Funcs \cup {Leaf}, extra : {0, 1}]
CallSeqs == UNION {[1..n -> CallRec] : n \in 0..MaxCalls}

VARIABLES graph,      \* function -> sequence of its forwarding calls
          stack,      \* frames [f, nargs, pc]: the analyses in progress, innermost last
          visits,     \* attempts counted by the guard (reset by the outermost retrieval)
          started,    \* the analyses really started, in order: <<f, nargs>>
          steps,      \* number of transitions (the work)
          done
vars == <<graph, stack, visits, started, steps, done>>


Key(f, n) == IF KeyMode = "func" THEN <<f, 0>> ELSE <<f, n>>
InProgress == {Key(stack[i].f, stack[i].nargs) : i \in DOMAIN stack}

Init == /\ graph \in [Funcs -> CallSeqs]
        /\ stack = <<[f |-> Root, nargs |-> 0, pc |-> 1]>>
        /\ visits = 1 /\ started = <<<<Root, 0>>>> /\ steps = 0 /\ done = FALSE

Top == stack[Len(stack)]
(* the next forwarding call of the innermost analysis *)
Call ==
  /\ ~done /\ stack # <<>> /\ Top.pc <= Len(graph[Top.f])
  /\ LET c == graph[Top.f][Top.pc]
         n == Top.nargs + c.extra
         adv == [stack EXCEPT ![Len(stack)].pc = @ + 1]
         cut == \/ KeyMode # "none" /\ Key(c.callee, n) \in InProgress
                \/ Len(stack) >= DepthBound
                \/ VisitBudget > 0 /\ visits + 1 > VisitBudget
     IN /\ visits' = visits + 1
        /\ IF cut THEN stack' = adv /\ UNCHANGED started                              \* UnknownForwards: plain signature of the callee, go on
           ELSE IF c.callee = Leaf THEN stack' = adv /\ started' = Append(started, <<Leaf, n>>)     \* analysed, forwards nothing: unknown, go on
           ELSE /\ stack' = Append(adv, [f |-> c.callee, nargs |-> n, pc |-> 1])
                /\ started' = Append(started, <<c.callee, n>>)
  /\ steps' = steps + 1 /\ UNCHANGED <<graph, done>>
(* the innermost analysis has looked at all its calls *)
Return ==
  /\ ~done /\ stack # <<>> /\ Top.pc > Len(graph[Top.f])
  /\ stack' = SubSeq(stack, 1, Len(stack) - 1)
  /\ steps' = steps + 1 /\ UNCHANGED <<graph, visits, started, done>>
Finish == /\ ~done /\ stack = <<>> /\ done' = TRUE /\ UNCHANGED <<graph, stack, visits, started, steps>>
Next == Call \/ Return \/ Finish
Spec == Init /\ [][Next]_vars /\ WF_vars(Next)

(* ---- properties *)
DepthRespected == Len(stack) <= DepthBound
(* the work of one retrieval is bounded by the budget, whatever the graph: every started analysis looks at <= MaxCalls calls *)
WorkBounded == VisitBudget > 0 => (Len(started) <= VisitBudget /\ steps <= (MaxCalls + 1) * (VisitBudget + 1) + 1)
Terminates == <>done
(* without a budget the same graphs need exponentially many steps: StepBound is what the configuration allows before giving up *)
WithinStepBound == steps <= StepBound

(* ---- export: one line per graph with the behaviour the code must show *)
ExportLine == Export /\ done =>
   PrintT("BEH|" \o ToJson([graph |-> [f \in Funcs |-> graph[f]], started |-> started, visits |-> visits, steps |-> steps]))
=============================================================================
