---------------------------- MODULE Trace_PyBind ----------------------------
(***************************************************************************)
(* Binds the binding oracle PyBind to CPython, and checks support's        *)
(* independent binder against both (C20 BindAgree).                        *)
(*                                                                         *)
(* One event per signature: its parameter list and, for EVERY shape of the *)
(* complete call set, what really calling a function with that def did     *)
(* (py: TypeError or the returned locals()) and what                        *)
(* support.bind_callsig answered (sup).  Values are distinguishable:        *)
(* <<"P", i>> i-th positional, <<"K", name>> keyword, <<"D", name>> default.*)
(* Also: sort_callsigs partitions accordingly, make_up_callsigs contains    *)
(* every positional prefix x keyword subset within its bounds.              *)
(***************************************************************************)
EXTENDS PyBind, Json, IOUtils, TLC, TLCExt

TraceLog == ndJsonDeserialize(IOEnv.TRACE_FILE)
Foreign == "zz"
Rng(q) == {q[i] : i \in DOMAIN q}
Clause(bad, name) == IF bad THEN {name} ELSE {}

VARIABLE l

CallV(ps, c) ==
  LET shape == [np |-> c.np, kw |-> Rng(c.kw)]
      b == BindShape(ps, shape)
      excluded == PoKwClash(ps, shape)       \* keyword naming a positional-only parameter alongside **kwargs
  IN   Clause(~excluded /\ b.ok # c.py.ok, "C20_AcceptsVsCPython")
  \cup Clause(~excluded /\ b.ok /\ c.py.ok /\ b.map # c.py.map, "C20_BindVsCPython")
  \cup Clause(~excluded /\ c.sup.ok # c.py.ok, "C20_BindCallsigAccepts")
  \cup Clause(~excluded /\ c.sup.ok /\ c.py.ok /\ c.sup.map # c.py.map, "C20_BindCallsigMap")
  \cup Clause(~excluded /\ c.sorted # c.py.ok, "C20_SortCallsigsPartition")
  (* the same comparison with None for every argument (both sides real): None is a value, not "not passed" *)
  \cup Clause(~excluded /\ c.supn.ok # c.pyn.ok, "C20_BindCallsigAccepts")
  \cup Clause(~excluded /\ c.supn.ok /\ c.pyn.ok /\ c.supn.map # c.pyn.map, "C20_BindCallsigMap")
  \cup Clause(Accepts(ps, shape) # b.ok, "HARNESS_AcceptsIsNotBindOk")

BindV(e) ==
  LET ps == e.ps
      shapes == {[np |-> e.calls[i].np, kw |-> Rng(e.calls[i].kw)] : i \in DOMAIN e.calls}
  IN UNION {CallV(ps, e.calls[i]) : i \in DOMAIN e.calls}
     \cup Clause(shapes # CallsFor(<<ps>>, Foreign, 0), "HARNESS_CallSetIncomplete")

(* make_up_callsigs(sig, extra): every positional prefix of names+extras combined with every keyword subset *)
MakeUpV(e) ==
  LET ps == e.ps
      got == {<<e.made[i].np, Rng(e.made[i].kw)>> : i \in DOMAIN e.made}
      nnamed == Cardinality(Named(ps))
      want == {<<np, kw>> : np \in 0..(nnamed + e.extra), kw \in SUBSET AllNames(ps)}      \* star parameters included: their names used as keywords are ways to call too
  IN Clause(~(want \subseteq got), "C20_MakeUpCallsigsComplete")

(* textual round trip: what s(text) / func_from_sig gave back against the signature the text was rendered from *)
SetOf(q) == {q[i] : i \in DOMAIN q}
RoundV(e) ==
  LET nonkwo(ps) == SelectSeq(ps, LAMBDA p : p.k # "kwo")
      kwo(ps) == SetOf(SelectSeq(ps, LAMBDA p : p.k = "kwo"))
  IN IF e.tag # "ok" THEN {"C20_RoundTripRaised"}
     ELSE Clause(IF e.upto_kwo_order THEN nonkwo(e.got) # nonkwo(e.want) \/ kwo(e.got) # kwo(e.want) \/ Len(e.got) # Len(e.want) ELSE e.got # e.want,
                 "C20_RoundTripDiffers")
          \cup Clause(e.retgot # e.retwant, "C20_RoundTripReturnAnnotation")
(* the function made by f returns its arguments keyed by parameter name: CPython's binding, observed through the returned mapping *)
FCallV(e) ==
  UNION {LET c == e.calls[i]  shape == [np |-> c.np, kw |-> Rng(c.kw)]  b == BindShape(e.ps, shape) IN
         IF PoKwClash(e.ps, shape) THEN {}
         ELSE Clause(b.ok # c.py.ok, "C20_FAcceptsVsBinding") \cup Clause(b.ok /\ c.py.ok /\ b.map # c.py.map, "C20_FReturnsArgumentsByName")
         : i \in DOMAIN e.calls}

Verdict(e) == CASE e.op = "bind" -> BindV(e)
                [] e.op = "makeup" -> MakeUpV(e)
                [] e.op = "roundtrip" -> RoundV(e)
                [] e.op = "fcall" -> FCallV(e)
                [] OTHER -> {}

Init == l = 1
Next == /\ l <= Len(TraceLog)
        /\ LET e == TraceLog[l] IN \A c \in Verdict(e) : PrintT("FAIL|" \o e.tid \o "|" \o c)
        /\ l' = l + 1
Spec == Init /\ [][Next]_l
TraceAccepted == TLCGet("stats").diameter = Len(TraceLog) + 1
=============================================================================
