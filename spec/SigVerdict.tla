----------------------------- MODULE SigVerdict -----------------------------
(***************************************************************************)
(* Per-event verdicts for the algebra family: which contract clauses       *)
(* (SigContracts) fail on one operation event, and where the reference     *)
(* model (SigAlgebra) disagrees with the observed outcome (drift).         *)
(* Shared by the model leg (SigMachine builds an event from its own state) *)
(* and the trace leg (Trace_Algebra reads events recorded from the real    *)
(* code), so both legs evaluate literally the same operators.              *)
(***************************************************************************)
EXTENDS SigContracts, SigAlgebra

CONSTANT Want        \* subset of {"C01","C02","C03","C08","C09","C10","C15","C16","C19","LAW","DRIFT"}

W(f) == f \in Want

SortedIns(e) == [i \in DOMAIN e.ins |-> SortSig(e.ins[i])]

(* ---- the reference model's answer for an event *)
Model(e) ==
  LET fl == e.flags IN
  CASE e.op = "merge"    -> MergeN(SortedIns(e))
    [] e.op = "embed"    -> EmbedN(SortedIns(e), fl.uva, fl.uvk)
    [] e.op = "mask"     -> Mask(SortSig(e.ins[1]), fl.n, fl.names, fl.ha, fl.hk, fl.hva, fl.hvk)
    [] e.op = "forwards" -> Forwards(SortSig(e.ins[1]), SortSig(e.ins[2]), fl.n, fl.names, fl.ha, fl.hk, fl.uva, fl.uvk, fl.partial)
    [] e.op = "partial"  -> MaskPartial(SortSig(e.ins[1]), fl.n, fl.names, fl.vals, fl.pobj)
    [] OTHER             -> [tag |-> "nomodel"]

SameOutcome(a, b, withProv) ==
  /\ a.tag = b.tag
  /\ a.tag = "sig" => /\ a.ps = b.ps
                      /\ withProv => (a.src = b.src /\ a.depth = b.depth)

Drift(e) ==
  LET m == Model(e) IN
  IF m.tag = "nomodel" \/ e.out.tag = "other" THEN {}
  ELSE IF m.tag # e.out.tag THEN {"tag"}
  ELSE IF m.tag # "sig" THEN {}
  ELSE (IF m.ps # e.out.ps THEN {"ps"} ELSE {})
       \cup (IF m.src # e.out.src THEN {"src"} ELSE {})
       \cup (IF m.depth # e.out.depth THEN {"depth"} ELSE {})

(* ---- contract clauses per event *)
MergeV(e) ==
  LET ips == PsOf(e.ins)  Calls == CallsFor(ips, Foreign, 0)  out == e.out IN
       (IF W("C01") /\ out.tag = "sig" THEN Clause(~C01_Sound(ips, out.ps, Calls), "C01_Sound") ELSE {})
  \cup (IF W("C09") /\ out.tag = "sig" THEN Clause(~C09_Exact(ips, out.ps, Calls), "C09_Exact")
                                              \cup Clause(~C09_RaiseIff(ips, FALSE, Calls), "C09_RaiseIff") ELSE {})
  \cup (IF W("C09") /\ out.tag = "incompat" THEN Clause(~C09_RaiseIff(ips, TRUE, Calls), "C09_RaiseIff") ELSE {})
  \cup (IF W("C10") /\ out.tag = "sig" /\ RoleConsistent(ips) THEN C10_MergeMeta(ips, out.ps) \cup Clause(~C10_PosOrder(ips, out.ps), "C10_PosOrder") ELSE {})

EmbedV(e) ==
  LET fl == e.flags  out == e.out IN
  IF Len(e.ins) # 2 THEN {} ELSE
  LET o == e.ins[1].ps  i == e.ins[2].ps  Calls == CallsFor(<<o, i>>, Foreign, 0) IN
       (IF W("C02") /\ out.tag = "sig" THEN Clause(~C02_Sound(o, i, fl.uva, fl.uvk, out.ps, Calls), "C02_Sound")
                                              \cup Clause(~C02_Exact(o, i, fl.uva, fl.uvk, out.ps, Calls), "C02_Exact") ELSE {})
  \cup (IF W("C02") /\ out.tag = "incompat" THEN Clause(~C02_RaiseOnlyWhen(o, i, fl.uva, fl.uvk, Calls), "C02_RaiseOnlyWhen") ELSE {})
  \cup (IF W("C10") /\ out.tag = "sig" THEN C10_EmbedMeta(o, i, out.ps) ELSE {})

MaskV(e) ==
       (IF W("C03") THEN MaskFails(e.ins, e.flags, e.out) ELSE {})
  \cup (IF W("C10") /\ e.out.tag = "sig" THEN C10_MaskMeta(e.ins[1].ps, e.out.ps) ELSE {})

(* signature(functools.partial(f, *nb positionals, **kb)): the event also carries realok, the shapes of the complete call set *)
(* on which REALLY calling the partial object raised no TypeError -- the property is stated against that, not against a model *)
PartialV(e) ==
  LET f == e.ins[1].ps  fl == e.flags  kb == Rng(fl.names)  Calls == CallsFor(<<f>>, Foreign, 0)
      real == {[np |-> e.realok[i].np, kw |-> Rng(e.realok[i].kw)] : i \in DOMAIN e.realok}
      out == e.out
  IN
  IF ~W("C19") \/ kb \cap PoNames(f) # {} THEN {}         \* keyword naming a positional-only parameter: excluded
  ELSE Clause(\E c \in Calls : PartialAccepts(f, fl.n, kb, c) # (c \in real), "C19_OracleVsRealPartial")   \* grounds PartialAccepts
  \cup (IF out.tag = "sig" THEN
            Clause(\E c \in Calls : NonColliding(c, out.ps, <<f>>) /\ (Accepts(out.ps, c) # (c \in real)), "C19_Exact")
       \cup Clause(\E k \in kb \cap {f[i].n : i \in {j \in DOMAIN f : f[j].k = "pok"}} :
                     \/ ~\E x \in DOMAIN out.ps : out.ps[x].n = k /\ out.ps[x].k = "kwo" /\ out.ps[x].d /\ out.ps[x].dv = fl.vals[k]
                     \/ HasVar(out.ps), "C19_BoundPokBecomesKwoWithDefault")
       \cup Clause(\E x, y \in DOMAIN f : x < y /\ f[x].k = "pok" /\ f[y].k = "pok" /\ f[x].n \in kb /\ f[y].n \in AllNames(out.ps)
                                           /\ ParamOf(out.ps, f[y].n).k # "kwo", "C19_FollowersBecomeKwo")
       \cup Clause(\E k \in kb \ NamedNames(f) :
                     \/ ~\E x \in DOMAIN out.ps : out.ps[x].n = k /\ out.ps[x].k = "kwo" /\ out.ps[x].dv = fl.vals[k]
                     \/ k \notin DOMAIN out.src \/ out.src[k] # <<fl.pobj>>, "C19_AbsorbedKeywordSourcedToPartial")
       \cup Clause(~(fl.pobj \in DOMAIN out.depth /\ out.depth[fl.pobj] = 0), "C19_PartialDepth0")
       \cup Clause(\E g \in DOMAIN e.ins[1].depth : ~(g \in DOMAIN out.depth /\ out.depth[g] = e.ins[1].depth[g] + 1), "C19_FuncDepthPlus1")
       \cup Clause(e.nparams_pos_removed # fl.n /\ e.nparams_pos_removed >= 0, "C19_BoundPositionalsDisappear")
     ELSE Clause(real # {}, "C19_RaisesOnlyIfUncallable"))

ForwardsV(e) ==
  LET o == e.ins[1].ps  i == e.ins[2].ps  fl == e.flags IN
  (IF W("C10") /\ e.out.tag = "sig" /\ ~fl.partial THEN C10_EmbedMeta(o, i, e.out.ps) ELSE {})
  \cup (IF W("C04") /\ e.out.tag = "sig" /\ ~fl.partial /\ ~(fl.ha \/ fl.hk) /\ Rng(fl.names) \cap PoNames(i) = {} THEN
          (* the composite contract: a call the result accepts is accepted by outer, and what outer forwards, *)
          (* together with the n positionals and the names written in the call, is accepted by inner          *)
          LET names == Rng(fl.names)  Calls == CallsFor(<<o, i>>, Foreign, 0) IN
          Clause(\E c \in Calls : /\ Accepts(e.out.ps, c) /\ NonColliding(c, e.out.ps, <<o, i>>) /\ c.kw \cap names = {}
                                  /\ ~(Accepts(o, c) /\ LET sp == Surplus(o, c, fl.uva, fl.uvk) IN
                                                         Accepts(i, [np |-> sp.np + fl.n, kw |-> sp.kw \cup names])),
                 "C04_ForwardsSound")
        ELSE {})

(* C10: keywords bound by a partial appear as keyword-only parameters whose default is the bound value *)
PartialMetaV(e) ==
  LET f == e.ins[1].ps  fl == e.flags  kb == Rng(fl.names)  out == e.out IN
  IF ~W("C10") \/ out.tag # "sig" \/ kb \cap PoNames(f) # {} THEN {}
  ELSE Clause(\E k \in kb : ~\E x \in DOMAIN out.ps : out.ps[x].n = k /\ out.ps[x].k = "kwo" /\ out.ps[x].d /\ out.ps[x].dv = fl.vals[k],
              "C10_PartialKeywordIsKwoWithBoundDefault")
       \cup Clause(\E x \in DOMAIN out.ps : out.ps[x].n \in AllNames(f) /\ out.ps[x].n \notin kb /\
                     LET p == ParamOf(f, out.ps[x].n) q == out.ps[x] IN ~KindOrder(p.k, q.k) \/ p.d # q.d \/ p.dv # q.dv \/ p.an # q.an,
                   "C10_PartialOthersKept")

(* depths: a callable reached through several inputs keeps the SMALLEST depth (embed puts its k-th input k-1 levels down) *)
MinNat(S) == CHOOSE x \in S : \A y \in S : x <= y
DepthIsMinimum(op, ins, o) ==
  \A f \in DOMAIN o.depth :
     LET cand == {ins[i].depth[f] + (IF op \in {"embed", "forwards"} THEN i - 1 ELSE 0) : i \in {j \in DOMAIN ins : f \in DOMAIN ins[j].depth}}
     IN cand = {} \/ o.depth[f] = MinNat(cand)
ProvV(e) ==
  IF ~W("C08") THEN {}
  (* what signature retrieval and the algebra hand out stays well-formed while it is used as an input (also of LATER operations) *)
  ELSE Clause(\E i \in DOMAIN e.ins : SourcesWF(e.ins[i]) # {}, "C08_InputProvenanceDamaged")
  \cup (IF e.out.tag # "sig" THEN {}
        ELSE SourcesWF(e.out) \cup (IF e.plain THEN SourcesVsInputs(e.op, e.ins, e.flags, e.out) ELSE {})
             \cup Clause(e.op \in {"merge", "embed"} /\ ~DepthIsMinimum(e.op, e.ins, e.out), "C08_DepthIsMinimum"))

PureV(e) ==
  IF ~W("C16") THEN {}
  ELSE Clause(e.before # e.after, "C16_InputsUnchanged")
       \cup Clause(Rng(e.ids_in) \cap Rng(e.ids_out) # {}, "C16_NoAliasing")

(* law events carry the outcomes of two or more REAL computations that the property says are equal *)
NormStars(ps) == [i \in DOMAIN ps |-> IF ps[i].k = "var" THEN [ps[i] EXCEPT !.n = "*"]
                                      ELSE IF ps[i].k = "vkw" THEN [ps[i] EXCEPT !.n = "**"] ELSE ps[i]]
IsSubseq(a, b) == \E f \in [DOMAIN a -> DOMAIN b] :
                     /\ \A x, y \in DOMAIN a : x < y => f[x] < f[y]
                     /\ \A x \in DOMAIN a : a[x] = b[f[x]]
SameBy(a, b, cmp) ==
  CASE cmp = "ps"        -> a.tag = b.tag /\ (a.tag = "sig" => a.ps = b.ps)
    [] cmp = "all"       -> a.tag = b.tag /\ (a.tag = "sig" => (a.ps = b.ps /\ a.src = b.src /\ a.depth = b.depth))
    [] cmp = "starnames" -> a.tag = b.tag /\ (a.tag = "sig" => NormStars(a.ps) = NormStars(b.ps))
    [] cmp = "subseq"    -> (a.tag = "sig" /\ b.tag = "sig") => IsSubseq(a.ps, b.ps)     \* a only removes parameters of b
    [] cmp = "params"    -> (a.tag = "sig" /\ b.tag = "sig") => a.ps = b.ps
LawV(e) ==
  IF ~W("LAW") THEN {}
  ELSE IF e.pre = "roleconsistent" /\ ~RoleConsistent(PsOf(e.ins)) THEN {}
  ELSE Clause(\E i, j \in DOMAIN e.results : i < j /\ ~SameBy(e.results[i], e.results[j], e.cmp), e.law)
       \cup Clause(~e.side, e.law \o "_Side")         \* a logged side condition of the law (e.g. "a DeprecationWarning was emitted")

(* the upgraded annotation of every result parameter denotes what its plain annotation is (functions of the algebra drivers are eagerly annotated) *)
UpgradedAnnV(e) ==
  IF ~W("C10") \/ e.out.tag # "sig" \/ "uan" \notin DOMAIN e.out THEN {}
  ELSE Clause(\E x \in DOMAIN e.out.ps : e.out.uan[x] # e.out.ps[x].an, "C10_UpgradedAnnotationDiffersFromAnnotation")

Verdict(e) ==
  IF e.op = "law" THEN LawV(e)
  ELSE (CASE e.op = "merge" -> MergeV(e)
          [] e.op = "embed" -> EmbedV(e)
          [] e.op = "mask" -> MaskV(e)
          [] e.op = "partial" -> PartialV(e) \cup PartialMetaV(e)
          [] e.op = "forwards" -> ForwardsV(e)
          [] OTHER -> {})
       \cup ProvV(e)
       \cup UpgradedAnnV(e)
       \cup PureV(e)
       \cup (IF W("C15") THEN C15Fails(e.op, e.ins, e.out) ELSE {})
=============================================================================
