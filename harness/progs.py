"""Generated programs: forwarding wrappers rendered to Python source, decorated as declared, retrieved through the real
sigtools and REALLY CALLED on the complete call set.

A binding TypeError is recognised structurally: stub callees only `return locals()` and cannot raise, so any TypeError
escaping a call of the program is an argument-binding error; the traceback tells where: no frame of the wrapper ->
rejected by the wrapper's own def ("outer"), otherwise raised at the forwarded call ("inner").
"""
import inspect
import itertools
import linecache
import sys

from . import absig

S = absig.Sentinel('S', 0)
_n = [0]


def compile_module(src, extra=None, future=False):
    """exec src as a module whose source inspect.getsource can find"""
    _n[0] += 1
    fname = '<verif-prog-%d>' % _n[0]
    linecache.cache[fname] = (len(src), None, src.splitlines(True), fname)
    g = {'__name__': 'verif_prog_%d' % _n[0], 'S': S}
    g.update(absig.GLOBALS_BASE)
    if extra:
        g.update(extra)
    flags = 0
    if future:
        import __future__
        flags = __future__.annotations.compiler_flag
    exec(compile(src, fname, 'exec', flags), g)
    return g, fname


def drop_cache(fname):
    linecache.cache.pop(fname, None)


def call_text(callee, o, fl):
    """the forwarding call as written: callee(<n positionals>, *args?, <names>=S..., **kwargs?),
    or functools.partial(callee, ...same arguments...) when fl['partial']"""
    parts = ['S'] * fl['n']
    va = next((p['n'] for p in o if p['k'] == 'var'), None)
    vk = next((p['n'] for p in o if p['k'] == 'vkw'), None)
    if fl['uva'] and va:
        parts.append('*' + va)
    parts += ['%s=S' % n for n in fl['names']]
    if fl['uvk'] and vk:
        parts.append('**' + vk)
    if fl.get('partial'):
        return 'functools.partial(%s)' % ', '.join([callee] + parts)
    return '%s(%s)' % (callee, ', '.join(parts))


def deco_args(fl, emulate=False):
    a = [str(fl['n'])] + [repr(n) for n in fl['names']]
    for k, f in (('use_varargs', 'uva'), ('use_varkwargs', 'uvk')):
        if not fl[f]:
            a.append('%s=False' % k)
    for k, f in (('hide_args', 'ha'), ('hide_kwargs', 'hk'), ('partial', 'partial')):
        if fl.get(f):
            a.append('%s=True' % k)
    if emulate:
        a.append('emulate=True')
    return ', '.join(a)


def render_forwarding(o, i, fl, placement):
    """-> (source, how to obtain the callables).  placements:
    function | emulate | method | method_emulate | super | apply_super | auto (no declaration: discovery)"""
    L = ['import functools', 'from sigtools import specifiers', '']
    if placement in ('function', 'emulate', 'auto', 'auto_global'):
        L += ['def inner(%s):' % absig.render_params(i), '    return locals()', '']
        if placement not in ('auto', 'auto_global'):
            L.append('@specifiers.forwards_to_function(inner, %s)' % deco_args(fl, placement == 'emulate'))
        ct = call_text('inner', o, fl)
        L += ['def w(%s):' % absig.render_params(o), '    return ' + ct, '']
    elif placement in ('method', 'method_emulate'):
        selfp = [{'n': 'self', 'k': 'pok', 'd': False, 'dv': 0, 'an': 0}]
        ct = call_text('self.inner', o, fl)
        L += ['class K(object):',
              '    def inner(%s):' % absig.render_params(with_self(i)), '        return locals()',
              "    @specifiers.forwards_to_method('inner', %s)" % deco_args(fl, placement == 'method_emulate'),
              '    def w(%s):' % absig.render_params(with_self(o)), '        return ' + ct, '']
    elif placement in ('super', 'apply_super'):
        ct = call_text('super(K, self).w' if placement == 'apply_super' else 'super().w', o, fl)
        L += ['class Base(object):', '    def w(%s):' % absig.render_params(with_self(i)), '        return locals()', '']
        if placement == 'apply_super':
            named = ', named_args=(%s,)' % ', '.join(repr(n) for n in fl['names']) if fl['names'] else ''
            extra = ''.join(', %s=False' % k for k, f in (('use_varargs', 'uva'), ('use_varkwargs', 'uvk')) if not fl[f])
            L.append("@specifiers.apply_forwards_to_super('w', num_args=%d%s%s)" % (fl['n'], named, extra))
            L += ['class K(Base):', '    def w(%s):' % absig.render_params(with_self(o)), '        return ' + ct, '']
        else:
            L += ['class K(Base):', '    @specifiers.forwards_to_super(%s)' % deco_args(fl),
                  '    def w(%s):' % absig.render_params(with_self(o)), '        return ' + ct, '']
    elif placement == 'auto_closure':
        # a module-level name spelled like the closure variable, bound to something else: local names are irrelevant, the closure cell decides
        L += ['def inner(decoy_only):', '    return None', '',
              'def make():', '    def inner(%s):' % absig.render_params(i), '        return locals()',
              '    def w(%s):' % absig.render_params(o), '        return ' + call_text('inner', o, fl), '    return w, inner',
              'w, inner_real = make()', '']
    elif placement in ('auto_attr', 'auto_attr2'):
        chain = 'ns.inner' if placement == 'auto_attr' else 'ns.sub.inner'
        L += ['import types', 'def inner(%s):' % absig.render_params(i), '    return locals()',
              'ns = types.SimpleNamespace(inner=inner, sub=types.SimpleNamespace(inner=inner))',
              'def w(%s):' % absig.render_params(o), '    return ' + call_text(chain, o, fl), '']
    elif placement == 'auto_method':
        L += ['class K(object):',
              '    def inner(%s):' % absig.render_params(with_self(i)), '        return locals()',
              '    def w(%s):' % absig.render_params(with_self(o)), '        return ' + call_text('self.inner', o, fl), '']
    elif placement == 'auto_param':
        # the callee is a parameter of the wrapper; discovery resolves it through a functools.partial binding it
        hp = [{'n': 'h', 'k': 'po' if o and o[0]['k'] == 'po' else 'pok', 'd': False, 'dv': 0, 'an': 0}]
        L += ['def inner(%s):' % absig.render_params(i), '    return locals()',
              'def w0(%s):' % absig.render_params(hp + list(o)), '    return ' + call_text('h', o, fl),
              'w = functools.partial(w0, inner)', '']
    elif placement == 'auto_param_nested':
        # a partial of a partial that functools does NOT flatten (the inner one carries an attribute): the callee is bound by the inner one,
        # one more positional by the outer one
        kind = 'po' if o and o[0]['k'] == 'po' else 'pok'
        hp = [{'n': 'h', 'k': kind, 'd': False, 'dv': 0, 'an': 0}, {'n': 'first', 'k': kind, 'd': False, 'dv': 0, 'an': 0}]
        L += ['def inner(%s):' % absig.render_params(i), '    return locals()',
              'def w0(%s):' % absig.render_params(hp + list(o)), '    return ' + call_text('h', o, fl),
              'p1 = functools.partial(w0, inner)', "p1.note = 'kept'", 'w = functools.partial(p1, S)', '']
    elif placement == 'auto_partial_nothing':
        # a partial object that binds NOTHING (or only keywords) over a forwarding function: still looked through
        L += ['def inner(%s):' % absig.render_params(i), '    return locals()',
              'def w0(%s):' % absig.render_params(o), '    return ' + call_text('inner', o, fl),
              'w = functools.partial(w0)', '']
    elif placement == 'auto_param_method':
        # the same through a BOUND METHOD: the partial binds the callee to the method's first parameter after self
        kind = 'po' if o and o[0]['k'] == 'po' else 'pok'
        hp = [{'n': 'self', 'k': kind, 'd': False, 'dv': 0, 'an': 0}, {'n': 'h', 'k': kind, 'd': False, 'dv': 0, 'an': 0}]
        L += ['def inner(%s):' % absig.render_params(i), '    return locals()',
              'class K(object):', '    def w0(%s):' % absig.render_params(hp + list(o)), '        return ' + call_text('h', o, fl),
              'w = functools.partial(K().w0, inner)', '']
    elif placement == 'auto_relay':
        # through an intermediate forwarder that takes its callee as first argument: the VALUES of the written arguments matter to discovery
        ct = call_text('relay', o, fl)
        ct = ct.replace('relay(', 'relay(inner, ', 1) if not fl.get('partial') else ct.replace('functools.partial(relay', 'functools.partial(relay, inner', 1)
        L += ['def inner(%s):' % absig.render_params(i), '    return locals()',
              'def relay(fn, /, *a, **k):', '    return fn(*a, **k)',
              'def w(%s):' % absig.render_params(o), '    return ' + ct.replace(', )', ')'), '']
    elif placement in ('auto_first_unresolvable', 'auto_first_incompatible'):
        # a second forwarding call whose callee cannot be resolved (taken out of a table) / that is incompatible with its callee (a positional
        # argument for a callee without positional parameters) comes FIRST: nothing can be concluded for the function as a whole
        first = 'TABLE[0]' if placement == 'auto_first_unresolvable' else 'kwonly'
        L += ['def inner(%s):' % absig.render_params(i), '    return locals()',
              'def other(*, only_q=None):', '    return locals()', 'TABLE = [other]',
              'def kwonly(*, only_q=None):', '    return locals()',
              'def w(%s):' % absig.render_params(o),
              '    ' + (call_text(first, o, fl) if placement == 'auto_first_unresolvable' else call_text(first, o, dict(fl, n=fl['n'] + 1))),
              '    return ' + call_text('inner', o, fl), '']
    elif placement in ('auto_loop_taint_after', 'auto_compr_shadow'):
        # the forwarded star is REPLACED between two executions of the same call: after the call in a loop body that runs twice, or by a
        # comprehension variable spelled like it (the comprehension's own scope) -- the second / only call forwards something else
        va = next((p['n'] for p in o if p['k'] == 'var'), None)
        vk = next((p['n'] for p in o if p['k'] == 'vkw'), None)
        L += ['def inner(%s):' % absig.render_params(i), '    return locals()', 'def w(%s):' % absig.render_params(o)]
        if placement == 'auto_loop_taint_after':
            L += ['    for _i in (0, 1):', '        r = ' + call_text('inner', o, fl)]
            L += ['        %s = {}' % vk] if vk and (fl['uvk'] or not va) else ['        %s = ()' % va]
            L += ['    return r', '']
        else:
            gen = 'for %s in ({},)' % vk if vk and (fl['uvk'] or not va) else 'for %s in ((),)' % va
            L += ['    return [%s %s]' % (call_text('inner', o, fl), gen), '']
    elif placement in ('auto_nested_def_own_stars', 'auto_nested_async_own_stars'):
        # a nested function with star parameters OF ITS OWN spelled like the wrapper's forwards those: the wrapper itself forwards nothing
        va = next((p['n'] for p in o if p['k'] == 'var'), 'args')
        vk = next((p['n'] for p in o if p['k'] == 'vkw'), 'kwargs')
        kw = 'async def' if placement == 'auto_nested_async_own_stars' else 'def'
        L += ['def inner(%s):' % absig.render_params(i), '    return locals()',
              'def w(%s):' % absig.render_params(o),
              '    %s helper(*%s, **%s):' % (kw, va, vk), '        return inner(*%s, **%s)' % (va, vk), '    return None', '']
    elif placement == 'auto_class_call':
        # the subject is a CLASS whose instances forward when called: calling the class runs the constructor (which takes nothing here),
        # whatever __call__ would accept
        L += ['def inner(%s):' % absig.render_params(i), '    return locals()',
              'class K(object):', '    def __init__(self):', '        pass',
              '    def __call__(%s):' % absig.render_params(with_self(o)), '        return ' + call_text('inner', o, fl), '']
    elif placement == 'auto_hint':
        # behind a modifiers decorator: discovery runs on the wrapped function's source with the rewritten signature (the hint protocol)
        L += ['from sigtools import modifiers', 'def inner(%s):' % absig.render_params(i), '    return locals()',
              '@modifiers.kwoargs(%r)' % 'hq', 'def w(%s):' % absig.render_params(hint_params(o)), '    return ' + call_text('inner', o, fl), '']
    elif placement == 'auto_hint_partial':
        # a partial object over such a function, the callee bound positionally
        hp = [{'n': 'h', 'k': 'pok', 'd': False, 'dv': 0, 'an': 0}]
        L += ['from sigtools import modifiers', 'def inner(%s):' % absig.render_params(i), '    return locals()',
              '@modifiers.kwoargs(%r)' % 'hq', 'def w0(%s):' % absig.render_params(hp + hint_params(o)), '    return ' + call_text('h', o, fl),
              'w = functools.partial(w0, inner)', '']
    elif placement == 'emulate_sigattr':
        # the wrapper already carries an explicit __signature__ (as modifiers.annotate leaves one) before it is declared with emulate=True
        L += ['from sigtools import signatures', 'def inner(%s):' % absig.render_params(i), '    return locals()', '',
              'def with_sig(f):', '    f.__signature__ = signatures.signature(f)', '    return f', '',
              '@specifiers.forwards_to_function(inner, %s)' % deco_args(fl, True), '@with_sig',
              'def w(%s):' % absig.render_params(o), '    return ' + call_text('inner', o, fl), '']
    elif placement in ('auto_carrier1', 'auto_carrier2'):
        # the callee is reached through an attribute chain on an argument (self), and a METHOD CALL on that argument (one or two attributes
        # deep) swaps the callee before the forwarding call: nothing may be concluded from the state discovery can see
        rot = 'self.rotate()' if placement == 'auto_carrier1' else 'self.registry.rotate()'
        L += ['def inner(%s):' % absig.render_params(i), '    return locals()',
              'def other(only_q=None):', '    return locals()',
              'class Reg(object):', '    def __init__(self):', '        self.handler = inner',
              '    def rotate(self):', '        self.handler = other',
              'def run(svc, *a, **k):', '    return svc.registry.handler(*a, **k)',
              'class K(object):', '    def __init__(self):', '        self.registry = Reg()',
              '    def rotate(self):', '        self.registry.rotate()',
              '    def w(%s):' % absig.render_params(with_self(o)), '        ' + rot, '        return ' + call_text('run', o, fl).replace('run(', 'run(self, ', 1).replace(', )', ')'), '']
    elif placement == 'auto_param_default':
        L += ['def inner(%s):' % absig.render_params(i), '    return locals()',
              'def w0(first, h=inner, %s):' % absig.render_params([p for p in o if p['k'] in ('var', 'kwo', 'vkw')]), '    return ' + call_text('h', o, fl),
              'w = functools.partial(w0, S)', '']
    elif placement in ('auto_wraps', 'auto_deco_noop'):
        # decorators that only wrap: the discovered signature must not change
        L += ['def inner(%s):' % absig.render_params(i), '    return locals()',
              'def noop(f):', '    return f',
              'def w_orig(%s):' % absig.render_params(o), '    return ' + call_text('inner', o, fl)]
        if placement == 'auto_wraps':
            L += ['@functools.wraps(w_orig)', 'def w(*a, **k):', '    return w_orig(*a, **k)', '']
        else:
            L += ['w = noop(noop(w_orig))', '']
    else:
        raise ValueError(placement)
    # instances of K are FALSY: nothing about a receiver's signature may depend on its truth value
    out = []
    for line in L:
        out.append(line)
        if line.startswith('class K('):
            out += ['    def __bool__(self):', '        return False', '    def __len__(self):', '        return 0']
    return '\n'.join(out)


def hint_params(o):
    """the outer parameters plus a defaulted regular parameter hq (made keyword-only by the modifier) after the positional ones"""
    hq = {'n': 'hq', 'k': 'pok', 'd': True, 'dv': 9, 'an': 0}
    return [p for p in o if p['k'] in ('po', 'pok')] + [hq] + [p for p in o if p['k'] not in ('po', 'pok')]


def hint_effective(o):
    """what the decorated wrapper advertises: hq keyword-only, after the native keyword-only parameters"""
    hq = {'n': 'hq', 'k': 'kwo', 'd': True, 'dv': 9, 'an': 0}
    return [p for p in o if p['k'] != 'vkw'] + [hq] + [p for p in o if p['k'] == 'vkw']


def with_self(ps):
    """prepend self (positional-only if the list starts with positional-only parameters)"""
    kind = 'po' if ps and ps[0]['k'] == 'po' else 'pok'
    return [{'n': 'self', 'k': kind, 'd': False, 'dv': 0, 'an': 0}] + list(ps)


def shapes(names, maxpos):
    for np_ in range(maxpos + 1):
        for k in range(len(names) + 1):
            for kw in itertools.combinations(names, k):
                yield np_, kw


def classify_typeerror(tb, wrapper_codes):
    """'outer' if no frame of the program's wrapper is on the traceback below the calling frame, else 'inner'"""
    t = tb.tb_next            # skip the frame that made the call (ours)
    while t is not None:
        if t.tb_frame.f_code in wrapper_codes:
            return 'inner'
        t = t.tb_next
    return 'outer'


def execute(fn, names, maxpos, wrapper_codes, first=None):
    """really call fn with every shape; -> (bad_outer, bad_inner, other) lists of {'np','kw'}.
    first: object passed as first positional argument / as keyword 'self' (unbound methods need a real instance)"""
    bad_outer, bad_inner, other = [], [], []
    for np_, kw in shapes(names, maxpos):
        args = [S] * np_
        if first is not None and np_:
            args[0] = first
        kwargs = {k: (first if (first is not None and k == 'self') else S) for k in kw}
        try:
            fn(*args, **kwargs)
        except TypeError:
            where = classify_typeerror(sys.exc_info()[2], wrapper_codes)
            (bad_outer if where == 'outer' else bad_inner).append({'np': np_, 'kw': list(kw)})
        except Exception as e:  # noqa
            other.append({'np': np_, 'kw': list(kw), 'exc': type(e).__name__})
    return bad_outer, bad_inner, other


def named_names(*pss):
    out = []
    for ps in pss:
        for p in ps:
            if p['k'] in ('po', 'pok', 'kwo') and p['n'] not in out:
                out.append(p['n'])
    return out


def npos(ps):
    return sum(1 for p in ps if p['k'] in ('po', 'pok'))
