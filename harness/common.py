"""Shared check scaffolding: verdict collection, known findings, evidence, exit codes."""
import json
import os
import sys
import time

VERIF = os.path.dirname(os.path.dirname(os.path.abspath(__file__)))
REPO = os.environ.get('SIGTOOLS_REPO', '/repo')
GUARD = 'SIGTOOLS_VERIF'
# where evidence/ and replays/ are written; redirected only when a seeded change is tried in a scratch checkout (tools/try_seeded.py)
OUT = os.environ.get('VERIF_OUT', VERIF)


def use_repo():
    """import sigtools from the current working tree of /repo, hooks enabled"""
    os.environ[GUARD] = '1'
    if REPO not in sys.path:
        sys.path.insert(0, REPO)
    import sigtools
    here = os.path.realpath(os.path.dirname(os.path.dirname(sigtools.__file__)))
    if here != os.path.realpath(REPO):
        raise RuntimeError('sigtools imported from %s, not %s' % (here, REPO))
    return sigtools


def load_known():
    p = os.path.join(VERIF, 'known_findings.json')
    if not os.path.exists(p):
        return []
    return json.load(open(p))


class Check:
    """collects what one run of one property check did; prints verdict lines; writes evidence"""

    def __init__(self, pid, tier, seed, level):
        self.pid = pid
        self.tier = tier
        self.seed = seed
        self.level = level
        self.t0 = time.time()
        self.failures = []        # dicts: tid, clause, key, case
        self.notes = []
        self.cov = {'evaluations': 0, 'distinct_nontrivial': 0, 'rule': '', 'samples': [],
                    'states': 0, 'transitions': 0, 'traces_validated_against_impl': 0,
                    'exhaustive': False}
        self.assumptions = []
        self.known = [k for k in load_known() if k.get('property') == pid and k.get('status') == 'known']
        self.machinery_errors = []
        self.legs = {}

    # ---- recording
    def add_model_run(self, name, res, expect_ok=True):
        self.cov['states'] += res.distinct
        self.cov['transitions'] += res.generated
        self.legs[name] = {'distinct': res.distinct, 'generated': res.generated, 'wall_s': round(res.wall, 2),
                           'ok': res.ok}
        if expect_ok and not res.ok:
            self.machinery_errors.append('TLC run %s failed:\n%s' % (name, res.out[-3000:]))
        # vacuity guard: with -coverage, every action of the specification must have been taken at least once in this configuration
        try:
            cov = res.coverage()
        except Exception:  # noqa
            cov = {}
        if cov:
            self.legs[name]['actions'] = {a: v[1] for a, v in sorted(cov.items())}
            agg = self.__dict__.setdefault('_action_totals', {})
            for a, (distinct, total) in cov.items():
                agg[a] = agg.get(a, 0) + total

    def fail(self, tid, clause, case=None, key=None, desc=None):
        self.failures.append({'tid': tid, 'clause': clause, 'key': key or clause, 'case': case, 'desc': desc})

    def note(self, msg):
        self.notes.append(msg)
        print('NOTE ' + msg)

    def sample(self, s):
        if len(self.cov['samples']) < 6:
            self.cov['samples'].append(s)

    def error(self, msg):
        self.machinery_errors.append(msg)

    # ---- finishing
    def finish(self):
        # vacuity guard: over all configurations of this check, every action of every specification run with -coverage was taken
        totals = self.__dict__.get('_action_totals', {})
        never = sorted(a for a, t in totals.items() if t == 0 and not a.endswith('!Init') and a not in self.__dict__.get('untaken_ok', ()))
        if totals:
            self.cov['spec_actions_taken'] = {'actions': len(totals), 'never_taken': never}
        if never:
            self.machinery_errors.append('vacuous model run: actions never taken in any configuration: %s' % never)
        matched = {}
        violations = []
        for f in self.failures:
            k = next((k for k in self.known if k['key'] == f['key']), None)
            if k is not None:
                matched.setdefault(k['key'], []).append(f)
            else:
                violations.append(f)
        for k in self.known:
            if k['key'] in matched:
                print('KNOWN-FINDING: property=%s %s (key=%s, %d cases this run)' % (
                    self.pid, k['what'], k['key'], len(matched[k['key']])))
        rc = 0
        replay_dir = os.path.join(OUT, 'replays')
        printed = 0
        for f in violations:
            rc = 1
            if printed >= 20:
                continue
            printed += 1
            os.makedirs(replay_dir, exist_ok=True)
            safe = ''.join(c if c.isalnum() or c in '-_.' else '_' for c in str(f['tid']))[:80]
            path = os.path.join(replay_dir, '%s-%s.json' % (self.pid, safe))
            with open(path, 'w') as fh:
                json.dump({'property': self.pid, 'tid': f['tid'], 'clause': f['clause'], 'key': f['key'],
                           'case': f['case'], 'tier': self.tier, 'seed': self.seed}, fh, indent=1, default=repr)
            print('VIOLATION property=%s replay=%s clause=%s tid=%s %s' % (
                self.pid, path, f['clause'], f['tid'], f.get('desc') or ''))
        if violations:
            import collections
            print('NOTE violations per clause: %s' % dict(collections.Counter(f['clause'] for f in violations)))
        if len(violations) > printed:
            print('NOTE %d further violations not listed (%d in total)' % (len(violations) - printed, len(violations)))
        if self.machinery_errors:
            for m in self.machinery_errors:
                print('MACHINERY-ERROR: ' + m)
            if rc == 0:
                rc = 2
        cov = dict(self.cov)
        cov['legs'] = self.legs
        cov['known_findings_matched'] = {k: len(v) for k, v in matched.items()}
        cov['notes'] = self.notes[:50]
        if cov['states'] < 1 or cov['transitions'] < 1:
            # no TLC model run in this check (yet): the schema then expects the generic exploration keys only
            cov.pop('states')
            cov.pop('transitions')
        ev = {'property_id': self.pid, 'tier': self.tier, 'seed': self.seed, 'level': self.level,
              'coverage': cov, 'assumptions': self.assumptions, 'wall_s': round(time.time() - self.t0, 2),
              'violations': len(violations)}
        os.makedirs(os.path.join(OUT, 'evidence'), exist_ok=True)
        with open(os.path.join(OUT, 'evidence', self.pid + '.json'), 'w') as fh:
            json.dump(ev, fh, indent=1, default=repr)
        print('%s tier=%s seed=%d: %d evaluations, %d distinct non-trivial, %d states, %d trace events validated, '
              '%d violations, %d known-finding cases, %.1fs' % (
                  self.pid, self.tier, self.seed, cov['evaluations'], cov['distinct_nontrivial'], cov.get('states', 0),
                  cov['traces_validated_against_impl'], len(violations),
                  sum(len(v) for v in matched.values()), time.time() - self.t0))
        return rc
