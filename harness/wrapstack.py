"""Driver for sigtools.wrappers (C13): stacks of wrappers.decorator / wrappers.wrapper_decorator wrappers around a base
function, as function / method / staticmethod, and wrappers.Combination; each really called on the complete call set with
distinguishable values and compared with the hand-written composition (both sides real)."""
import inspect
import itertools
import json

from . import absig, progs

S = progs.S


class Val:
    __slots__ = ('v',)

    def __init__(self, *v):
        self.v = list(v)

    def __repr__(self):
        return 'Val%r' % (self.v,)


def enc(x, inst=None):
    if inst is not None and x is inst:
        return ['SELF', 0]
    if isinstance(x, Val):
        return x.v
    if isinstance(x, absig.Sentinel):
        return [x.tag, x.id]
    if x is None:
        return ['NONE', 0]
    if isinstance(x, (tuple, list)):
        return [enc(y, inst) for y in x]
    if isinstance(x, dict):
        return {k: enc(v, inst) for k, v in x.items()}
    if isinstance(x, str):
        return ['STR', x]
    return ['?', type(x).__name__]


def suffix(ps, k):
    return [dict(p, n=p['n'] if p['k'] in ('var', 'vkw') else p['n'] + str(k)) for p in ps]


def call_inner(o, fl):
    """the call of the wrapped callable inside a wrapper: func(<n positionals>, *args?, <names>=S, **kwargs?)"""
    parts = ['S'] * fl['n']
    va = next((p['n'] for p in o if p['k'] == 'var'), None)
    vk = next((p['n'] for p in o if p['k'] == 'vkw'), None)
    if va:
        parts.append('*' + va)
    parts += ['%s=S' % n for n in fl['names']]
    if vk:
        parts.append('**' + vk)
    return 'func(%s)' % ', '.join(parts)


FUNC = {'n': 'func', 'k': 'pok', 'd': False, 'dv': 0, 'an': 0}


def func_param(o):
    return dict(FUNC, k='po' if o and o[0]['k'] == 'po' else 'pok')


def own_dict(o):
    # only the named parameters: mentioning *args / **kwargs anywhere but in the forwarding call would (rightly) make discovery
    # treat them as handed to other code; what they held is visible in the wrapped callable's result anyway
    return 'dict(%s)' % ', '.join('%s=%s' % (p['n'], p['n']) for p in o if p['k'] not in ('var', 'vkw'))


def render_stack(layers, base, kinds, fls, placement, reuse=False, sigattr=False, stepwise=False):
    """layers: outermost first, parameter lists WITHOUT the leading func parameter; kinds[k] in {'decorator', 'wrapper_decorator'};
    fls[k] = {'n', 'names'} how layer k calls the wrapped callable (decorator: n = 0, no names)"""
    L = ['import functools', 'from sigtools import wrappers, specifiers', '']
    n = len(layers)
    for k, (o, kind, fl) in enumerate(zip(layers, kinds, fls), 1):
        if kind == 'decorator':
            L.append('@wrappers.decorator')
        else:
            a = ', '.join([str(fl['n'])] + [repr(x) for x in fl['names']])
            L.append('@wrappers.wrapper_decorator(%s)' % a)
        L += ['def d%d(%s):' % (k, absig.render_params([func_param(o)] + list(o))),
              "    return ('d%d', %s, %s)" % (k, own_dict(o), call_inner(o, fl)), '']
        # the same function, undecorated, for the hand-written composition
        L += ['def raw%d(%s):' % (k, absig.render_params([func_param(o)] + list(o))),
              "    return ('d%d', %s, %s)" % (k, own_dict(o), call_inner(o, fl)), '']
    selfp = [] if placement in ('function', 'static') else [dict(FUNC, n='self', k='po' if base and base[0]['k'] == 'po' else 'pok')]
    bparams = absig.render_params(selfp + list(base))
    decos = ['@d%d' % (1 if reuse else k) for k in range(1, n + 1)]      # reuse: the SAME wrapping function in every layer
    if sigattr:
        # the decorated function already carries an explicit __signature__ (as modifiers.annotate leaves one)
        L += ['from sigtools import signatures', 'def with_sig(f):', '    f.__signature__ = signatures.signature(f)', '    return f', '']
        decos = decos + ['@with_sig']
    if stepwise:
        # the stack is built one layer at a time and every intermediate callable is INSPECTED before the next layer is applied
        L += ['import inspect, sigtools', 'def PEEK(f):', '    for r in (inspect.signature, sigtools.signature):', '        try:', '            r(f)',
              '        except Exception:', '            pass', '    return f', '']
        steps = ['w = PEEK(%s(w))' % d[1:] for d in reversed(decos)]
        if placement == 'function':
            L += ['def w(%s):' % bparams, '    return locals()'] + steps + ['']
        else:
            L += ['class K(object):', '    def __bool__(self):', '        return False', '    def __len__(self):', '        return 0']
            L += ['    def w(%s):' % bparams, '        return locals()'] + ['    ' + st for st in steps]
            if placement == 'static':
                L += ['    w = staticmethod(w)']
            L += ['']
        L += ['def base_raw(%s):' % bparams, '    return locals()', '']
        return '\n'.join(L)
    if placement == 'function':
        L += decos + ['def w(%s):' % bparams, '    return locals()', '']
        L += ['def base_raw(%s):' % bparams, '    return locals()', '']
    else:
        # instances are FALSY: binding must not depend on the truth value of the instance
        L += ['class K(object):', '    def __bool__(self):', '        return False', '    def __len__(self):', '        return 0']
        if placement == 'static':
            L += ['    @staticmethod']
        L += ['    ' + d for d in decos] + ['    def w(%s):' % bparams, '        return locals()', '']
        L += ['def base_raw(%s):' % bparams, '    return locals()', '']
    return '\n'.join(L)


def hand_written(g, n, first=None, reuse=False):
    """d1(lambda *a, **k: d2(... base ...), *a, **k) with the undecorated wrapper functions"""
    h = g['base_raw']
    if first is not None:
        inner = h
        h = lambda *a, **k: inner(first, *a, **k)          # noqa: the bound method
    for k in range(n, 0, -1):
        h = (lambda d, hh: (lambda *a, **kw: d(hh, *a, **kw)))(g['raw%d' % (1 if reuse else k)], h)
    return h


def outcome(thunk, inst=None):
    try:
        return {'ok': True, 'val': enc(thunk(), inst), 'exc': ''}
    except BaseException as e:  # noqa
        return {'ok': False, 'val': [], 'exc': type(e).__name__}


def retrieve(thunk):
    try:
        r = thunk()
        return {'tag': 'sig', 'ps': absig.project_params(r)}
    except ValueError as e:
        return {'tag': 'valueerror:' + type(e).__name__, 'ps': []}
    except Exception as e:  # noqa
        return {'tag': 'other:' + type(e).__name__, 'ps': []}


def shapes(names, maxpos):
    for np_ in range(maxpos + 1):
        for k in range(len(names) + 1):
            for kw in itertools.combinations(names, k):
                yield np_, list(kw)


def stack_event(tid, layers, base, kinds, fls, placement, kwmax=3, reuse=False, sigattr=False, stepwise=False):
    import sigtools
    from sigtools import signatures, wrappers
    src = render_stack(layers, base, kinds, fls, placement, reuse, sigattr, stepwise)
    g, fname = progs.compile_module(src)
    e = {'tid': tid, 'op': 'wrapstack', 'layers': layers, 'base': base, 'kinds': kinds, 'fls': fls, 'placement': placement,
         'case': {'layers': layers, 'base': base, 'kinds': kinds, 'fls': fls, 'placement': placement, 'src': src, 'reuse': reuse, 'sigattr': sigattr, 'stepwise': stepwise}}
    try:
        n = len(layers)
        inst = None
        if placement == 'function':
            target = g['w']
            unbound = None
        else:
            K = g['K']
            inst = K()
            target = inst.w
            unbound = K.__dict__['w']
            if placement == 'static':
                unbound = None
        first = inst if placement == 'method' else None
        hand = hand_written(g, n, first, reuse)
        routes = [('sigtools', lambda: sigtools.signature(target)), ('sigtools-noauto', lambda: sigtools.signature(target, auto=False)),
                  ('signatures', lambda: signatures.signature(target)), ('inspect', lambda: inspect.signature(target))]
        e['adv'] = [dict(retrieve(t), route=r) for r, t in routes]
        e['on_class'] = [dict(retrieve(t), route=r) for r, t in (
            ('sigtools', lambda: sigtools.signature(K.w)), ('signatures', lambda: signatures.signature(K.w)), ('inspect', lambda: inspect.signature(K.w)))] \
            if placement == 'method' else []
        listed = list(wrappers.wrappers(target))
        raws = {}
        for k in range(1, n + 1):
            d = g['d%d' % k]
            raws[id(getattr(d, '__wrapped__', None) or getattr(d, 'wrapper', None))] = 'd%d' % k
        e['wrappers_listed'] = [raws.get(id(w), 'other:' + getattr(w, '__name__', '?')) for w in listed]
        e['wrappers_expected'] = ['d%d' % (1 if reuse else k) for k in range(1, n + 1)]
        names = [x for x in progs.named_names(*(list(layers) + [base])) if x not in ('self', 'func')] + ['zz']
        maxpos = sum(progs.npos(o) for o in layers) + progs.npos(base) + 1 + sum(f['n'] for f in fls)
        calls = []
        for np_, kw in shapes(names, maxpos):
            if len(kw) > kwmax:
                continue
            args = tuple(Val('P', j + 1) for j in range(np_))
            kwargs = {k: Val('K', k) for k in kw}
            got = outcome(lambda: target(*args, **kwargs), inst)
            want = outcome(lambda: hand(*args, **kwargs), inst)
            calls.append({'np': np_, 'kw': kw, 'got': got, 'want': want})
        e['calls'] = calls
        e['maxpos'], e['kwpool'], e['kwmax'] = maxpos, names, kwmax
    finally:
        progs.drop_cache(fname)
    return e


def render_combination(funcs, wrapped_member=False, forwarding_member=False):
    L = ['from sigtools import wrappers', '']
    for k, ps in enumerate(funcs, 1):
        L += ['def c%d(%s):' % (k, absig.render_params(ps)), "    return ('c%d', locals())" % k, '']
    members = ['c%d' % k for k in range(1, len(funcs) + 1)]
    if wrapped_member:
        # a Combination wrapped by a decorator, as a member of another Combination: the wrapper must stay in the chain
        L += ['@wrappers.decorator', 'def dd(func, *args, **kwargs):', "    return ('dd', func(*args, **kwargs))", '',
              'def raw_dd(func, *args, **kwargs):', "    return ('dd', func(*args, **kwargs))", '',
              'member0 = dd(wrappers.Combination(c1))']
        members[0] = 'member0'
    if forwarding_member:
        # the last member is reached through a plain function that forwards everything to it: its signature is known through discovery only
        last = len(funcs)
        kind = '/, ' if funcs[-1] and funcs[-1][0]['k'] == 'po' else ''
        L += ['def fwd_member(arg, %s*args, **kwargs):' % kind, '    return c%d(arg, *args, **kwargs)' % last, '']
        members[-1] = 'fwd_member'
    L += ['comb = wrappers.Combination(%s)' % ', '.join(members), '']
    return '\n'.join(L)


def combination_event(tid, funcs, kwmax=3, wrapped_member=False, forwarding_member=False):
    """funcs: parameter lists, each starting with the parameter that receives the previous result"""
    import sigtools
    from sigtools import signatures
    src = render_combination(funcs, wrapped_member, forwarding_member and not (wrapped_member and len(funcs) == 1))
    g, fname = progs.compile_module(src)
    e = {'tid': tid, 'op': 'combination', 'funcs': funcs, 'case': {'funcs': funcs, 'src': src, 'wrapped_member': wrapped_member, 'forwarding_member': forwarding_member}}
    try:
        comb = g['comb']
        fs = [g['c%d' % k] for k in range(1, len(funcs) + 1)]

        def hand(arg, *a, **k):
            for j, f in enumerate(fs):
                arg = g['raw_dd'](f, arg, *a, **k) if (wrapped_member and j == 0) else f(arg, *a, **k)
            return arg
        # the forger of a Combination is not emulated: signatures.signature / inspect.signature show the plain __call__ by design
        routes = [('sigtools', lambda: sigtools.signature(comb)), ('sigtools-noauto', lambda: sigtools.signature(comb, auto=False))]
        e['adv'] = [dict(retrieve(t), route=r) for r, t in routes]
        names = progs.named_names(*funcs) + ['zz']
        maxpos = sum(progs.npos(f) for f in funcs) + 1
        calls = []
        for np_, kw in shapes(names, maxpos):
            if len(kw) > kwmax:
                continue
            args = tuple(Val('P', j + 1) for j in range(np_))
            kwargs = {k: Val('K', k) for k in kw}
            calls.append({'np': np_, 'kw': kw, 'got': outcome(lambda: comb(*args, **kwargs)), 'want': outcome(lambda: hand(*args, **kwargs))})
        e['calls'] = calls
        e['maxpos'], e['kwpool'], e['kwmax'] = maxpos, names, kwmax
    finally:
        progs.drop_cache(fname)
    return e


def describe(e, case):
    if e['op'] == 'combination':
        key = json.dumps(e['funcs'], sort_keys=True)
        adv = next((absig.sig_str(a['ps']) for a in e['adv'] if a['tag'] == 'sig'), e['adv'][0]['tag'])
        return key, False, 'Combination(%s) -> %s; %d shapes called' % (', '.join(absig.sig_str(f) for f in e['funcs']), adv, len(e['calls']))
    key = json.dumps([e['layers'], e['base'], e['kinds'], e['fls'], e['placement']], sort_keys=True)
    adv = next((absig.sig_str(a['ps']) for a in e['adv'] if a['tag'] == 'sig'), e['adv'][0]['tag'] if e.get('adv') else '-')
    text = '%s: %s around def w%s -> %s; %d shapes called, %d ran' % (
        e['placement'], ' > '.join('%s%s' % (k, absig.sig_str([FUNC] + list(o))) for k, o in zip(e['kinds'], e['layers'])), absig.sig_str(e['base']), adv,
        len(e.get('calls', ())), sum(1 for c in e.get('calls', ()) if c['got']['ok']))
    return key, False, text
