"""C10 -- defaults, annotations and kinds of combined parameters follow the stated rules.

Universe extended with metadata: every defaulted parameter takes one of two distinct default values, every named parameter
one of {no annotation, A1, A2}.  'Stands for' is defined in the spec (SigContracts!StandsFor).
(M)  SigMachine over the metadata universe: C10_MergeMeta / C10_PosOrder / C10_EmbedMeta / C10_MaskMeta as invariants
     (exhaustive on the one-named-parameter slice, simulation on the 3 676-signature universe).
(T)  the same clauses evaluated by TLC on real merge / embed / mask / forwards / partial results with real default objects
     and real annotation objects.
"""
import random

from .. import algebra, alggen, tlc, absig
from ..algebra import Universe, run_trace_leg, model_leg
from . import c19

LEVEL = 'model_checking'
WANT = ['C10', 'DRIFT']


def classify(tid, clause, case):
    """D22 (known finding): at arity >= 3 a conflict between annotated contributors is forgotten by the fold -- the
    result carries the annotation of a later contributor although the annotated contributors do not all agree.
    The key applies only when EVERY mis-annotated result parameter has exactly that shape."""
    if clause == 'C10_UpgradedAnnotationDiffersFromAnnotation' and case and ('-class/' in tid or '-instance/' in tid):
        # known finding: a signature read from an object without code of its own (a class, a callable instance) carries its annotations only in
        # the plain .annotation; the upgraded annotation is empty.  The key applies only when EVERY upgraded annotation of the result is empty
        out = case.get('out') or {}
        if out.get('tag') == 'sig' and not any(out.get('uan') or [1]):
            return 'no-code-carrier-upgraded-annotation-empty'
        return clause
    if clause != 'C10_Annotation' or not case or case.get('op') != 'merge' or len(case.get('ins', ())) < 3:
        return clause
    out = case.get('out') or {}
    if out.get('tag') != 'sig':
        return clause
    ok = False

    def pos_index(ps, name):
        i = 0
        for q in ps:
            if q['k'] in ('po', 'pok'):
                i += 1
                if q['n'] == name:
                    return i
        return 0

    def at_index(ps, idx):
        i = 0
        for q in ps:
            if q['k'] in ('po', 'pok'):
                i += 1
                if i == idx:
                    return q
        return None
    for p in out['ps']:
        if p['k'] in ('var', 'vkw'):
            continue
        # the contributors, as SigContracts!StandsFor defines them: the same-named non-star parameter of an input if it has one,
        # otherwise (positional result parameters) the input's positional parameter at the same positional index
        anns = []
        for ps in case['ins']:
            same = [q for q in ps if q['n'] == p['n'] and q['k'] not in ('var', 'vkw')]
            if same:
                q = same[0]
            elif p['k'] in ('po', 'pok'):
                q = at_index(ps, pos_index(out['ps'], p['n']))
            else:
                q = None
            if q is not None and q['an']:
                anns.append(q['an'])
        if not anns:
            continue
        expected = anns[0] if len(set(anns)) == 1 else 0
        if p['an'] != expected:
            if expected == 0 and p['an'] in anns:
                ok = True
            else:
                return clause
    return 'nary-annotation-conflict-forgotten' if ok else clause


class UnusualUniverse(Universe):
    """functions whose annotation A1 and default D2 are ONE object with an unusual == (shared by all functions)"""

    def __init__(self, sigs, mode):
        Universe.__init__(self, sigs)
        self.extra = {'A1': absig.Unusual(mode, an=1), 'D2': absig.Unusual(mode, dv=2)}

    def func(self, i, slot):
        key = (i, slot)
        f = self._funcs.get(key)
        if f is None:
            f = self._funcs[key] = absig.make_func(self.sigs[i], name='f%d' % slot, extra_globals=self.extra)
        return f


def run(check, tier, seed, scratch):
    quick = tier == 'quick'
    DV, AN = [2, 3], [0, 1, 2]
    UM1 = tlc.export_universe(scratch, 'ab', ['args'], ['kwargs'], 1, dvs=DV, ans=AN)     # 220
    UM2 = tlc.export_universe(scratch, 'ab', ['args'], ['kwargs'], 2, dvs=DV, ans=AN)     # 3676
    base = dict(StarV={'args'}, StarK={'kwargs'}, Names=set('ab'), MaxN=1, MaxNamesLen=1, HideFlags=False, DVs=set(DV), ANs=set(AN))
    cex = []
    for op, ar in (('merge', 2), ('embed', 2), ('mask', 1)):
        cex += [(op, c) for c in model_leg(check, scratch, '%s-UM1' % op, dict(base, MaxNamed=1, Op=op, Arity=ar), ['C10'])]
    nsim = 6000 if quick else 250000
    for op, ar in (('merge', 2), ('embed', 2), ('merge', 3)):
        cex += [(op, c) for c in model_leg(check, scratch, '%s%d-UM2-sim' % (op, ar), dict(base, MaxNamed=2, Op=op, Arity=ar), ['C10'],
                                            simulate='num=%d' % nsim, depth=ar + 2, seed=seed + ar)]
    check.cov['model_counterexamples'] = len(cex)
    u1, u2, cu = Universe(UM1), Universe(UM2), algebra.CaseUniverse()
    UO = [ps for ps in UM1 if alggen.has_star(ps)]
    uo = Universe(UO)
    n2 = 15000 if quick else 600000
    gens = [alggen.merge_pairs(u1, UM1), alggen.embed_pairs(u1, UM1, sample_other=0.1 if quick else 1.0, seed=seed),
            alggen.merge_tuples(u2, UM2, alggen.random_tuples(n2, len(UM2), 2, seed), tag='merge2m'),
            alggen.embed_tuples(u2, UM2, alggen.random_tuples(n2, len(UM2), 2, seed + 1), tag='embed2m'),
            alggen.merge_tuples(u2, UM2, alggen.random_tuples(n2 // 3, len(UM2), 3, seed + 2), tag='merge3m'),
            alggen.mask_events(u1, UM1, hide='none'),
            alggen.mask_events(u2, UM2, hide='none', maxnames=1) if not quick else alggen.mask_events(Universe(UM2[::12]), UM2[::12], tag='mask2m', hide='none', maxnames=1),
            alggen.forwards_events(uo, UO, u1, UM1, sample=0.03 if quick else 0.5, seed=seed),
            c19.partial_events(Universe(UM2[::9] if quick else UM2), UM2[::9] if quick else UM2, 1, sample=0.3 if quick else 0.5, seed=seed)]
    # the same rules when the default objects of the inputs are equal but not identical (functions compiled separately), and when the signatures
    # are read from objects without code of their own (a class's constructor, a callable instance)
    UMs = UM2[::7] if quick else UM2
    for mode in ('fresh', 'class', 'instance'):
        um = Universe(UMs, mode=mode)
        gens.append(alggen.merge_tuples(um, UMs, alggen.random_tuples(n2 // 5, len(UMs), 2, seed + 7), tag='merge2-' + mode))
        gens.append(alggen.embed_tuples(um, UMs, alggen.random_tuples(n2 // 10, len(UMs), 2, seed + 8), tag='embed2-' + mode))
    # annotation and default VALUES with an unusual == (equal to everything, no truth value, raising, not equal to itself): the SAME object stands
    # for annotation A1 / default D2 in every input, so whatever == says about it, the contributors agree
    # (only signatures whose annotations are all A1 and whose defaults are all D2: compared with OTHER values, what == answers is the value's say)
    UMu = [ps for ps in UM2 if all(p['an'] in (0, 1) and p['dv'] in (0, 2) for p in ps)]
    UMu = UMu[::3] if quick else UMu
    for mode in ('anyeq', 'never'):
        um = UnusualUniverse(UMu, mode)
        gens.append(alggen.merge_tuples(um, UMu, alggen.random_tuples(n2 // 10, len(UMu), 2, seed + 9), tag='merge2-unusual-' + mode))
        gens.append(alggen.embed_tuples(um, UMu, alggen.random_tuples(n2 // 20, len(UMu), 2, seed + 10), tag='embed2-unusual-' + mode))
    for op in ('merge', 'embed', 'mask'):
        gens.append(alggen.cex_events(cu, op, [c for o, c in cex if o == op], tag='modelcex-' + op))
    run_trace_leg(check, scratch, 'metadata', alggen.chain(*gens), WANT, classify=classify)
    check.cov['exhaustive'] = True
    check.cov['rule'] = ('metadata universes: 220 signatures (<=1 named parameter) exhaustively in pairs, 3 676 signatures (<=2 named) by seeded samples '
                         '(%d pairs each for merge and embed, %d merge triples); mask, forwards and partial over the same; real default and annotation objects; '
                         'distinct by (inputs incl. metadata, flags)' % (n2, n2 // 3))
    check.assumptions += ["'stands for': same-named non-star parameter of an input if it has one, else the input's positional parameter at the same positional index",
                          'merge metadata rules are claimed for role-consistent inputs']


def replay(check, case, scratch):
    cu = algebra.CaseUniverse()
    c = case['case']

    def gen(shard, nshards):
        if shard != 0:
            return
        if c['op'] == 'partial':
            ps = c['ins'][0]
            yield c19.partial_event(cu, case['tid'], absig.make_func(ps, name='f1'), ps, c['fl']['n'], list(c['fl']['names']), c.get('route', 'plain'), c.get('nested', False))
        else:
            yield algebra.case_event(cu, case['tid'], c['op'], c['ins'], {k: v for k, v in (c.get('fl') or {}).items() if k in algebra.FLAGS0})
    run_trace_leg(check, scratch, 'replay', gen, WANT, nshards=1, classify=classify)
