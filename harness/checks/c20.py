"""C20 -- support helpers faithfully build and bind signatures.  This check also OWNS the validation of the binding
oracle (PyBind!Accepts / Bind) that every other family trusts.

(M)  PyBindMachine: for every universe signature and every shape, Accepts = Bind.ok, the delivery map is total over the
     parameter names and well-typed -- small sanity model of the oracle itself.
(T)  BindAgree, three ways, per signature x EVERY shape of the complete call set with distinguishable values:
     really calling a generated function with that def (CPython), support.bind_callsig, PyBind!Bind -- acceptance and the
     full delivery map; sort_callsigs partitions accordingly; make_up_callsigs is complete within its bounds.
     Round trip: s(text) / func_from_sig reproduce each signature (names, kinds, defaults, annotations, return annotation,
     eager and postponed) under every read_sig option combination; f()'s function returns its arguments by name.
"""
import inspect
import itertools
import json

from .. import algebra, tlc, absig
from ..algebra import run_trace_leg

LEVEL = 'model_checking'


class Val:
    __slots__ = ('v',)

    def __init__(self, *v):
        self.v = list(v)

    def __repr__(self):
        return 'Val%r' % (self.v,)

    def __eq__(self, o):
        return isinstance(o, Val) and o.v == self.v

    def __hash__(self):
        return hash(tuple(self.v))


def enc(x):
    if isinstance(x, Val):
        return x.v
    if isinstance(x, tuple):
        return [enc(y) for y in x]
    if isinstance(x, dict):
        return {k: enc(v) for k, v in x.items()}
    return ['?', repr(x)]


def enc_none(x):
    if x is None:
        return ['NONE', 0]
    if isinstance(x, Val):
        return x.v
    if isinstance(x, tuple):
        return [enc_none(y) for y in x]
    if isinstance(x, dict):
        return {k: enc_none(v) for k, v in x.items()}
    return ['?', repr(x)]


def make_valued_func(ps):
    """def with a distinguishable default object per defaulted parameter, returning locals()"""
    g = {}
    parts = []
    for p in ps:
        q = dict(p)
        parts.append(q)
    src_ps = []
    # render manually so that each default is its own name
    text = absig.render_params([dict(p, dv=2) for p in ps])
    for p in ps:
        if p['d']:
            g['DEF_' + p['n']] = Val('D', p['n'])
    # replace the shared default token by per-parameter ones
    out = []
    for part in text.split(', ') if text else []:
        if '=' in part:
            name = part.split('=')[0].split(':')[0].strip().lstrip('*')
            part = part.split('=')[0] + '=DEF_' + name
        out.append(part)
    src = 'def f(%s):\n    return locals()\n' % ', '.join(out)
    exec(compile(src, '<verif-bind>', 'exec'), g)
    return g['f']


def shapes_for(ps):
    npos = sum(1 for p in ps if p['k'] in ('po', 'pok'))
    names = [p['n'] for p in ps] + ['zz']
    for np_ in range(npos + 2):
        for k in range(len(names) + 1):
            for kw in itertools.combinations(names, k):
                yield np_, list(kw)


def bind_events(U):
    from sigtools import support, signatures

    def gen(shard, nshards):
        for i, ps in enumerate(U):
            if i % nshards != shard:
                continue
            f = make_valued_func(ps)
            sig = signatures.signature(f)
            calls = []
            allcs = []
            for np_, kw in shapes_for(ps):
                args = tuple(Val('P', j + 1) for j in range(np_))
                kwargs = {k: Val('K', k) for k in kw}
                allcs.append((args, kwargs))
                try:
                    r = f(*args, **kwargs)
                    py = {'ok': True, 'map': enc(r)}
                except TypeError:
                    py = {'ok': False}
                try:
                    b = support.bind_callsig(sig, args, kwargs)
                    sup = {'ok': True, 'map': enc(b)}
                except TypeError:
                    sup = {'ok': False}
                # second value scheme: every argument is None (a binder must not take None for 'not passed')
                nargs, nkwargs = (None,) * np_, {k: None for k in kw}
                try:
                    pyn = {'ok': True, 'map': enc_none(f(*nargs, **nkwargs))}
                except TypeError:
                    pyn = {'ok': False}
                try:
                    supn = {'ok': True, 'map': enc_none(support.bind_callsig(sig, nargs, nkwargs))}
                except TypeError:
                    supn = {'ok': False}
                calls.append({'np': np_, 'kw': kw, 'py': py, 'sup': sup, 'pyn': pyn, 'supn': supn})
            valid, invalid = support.sort_callsigs(sig, allcs)
            validset = {(len(a), tuple(sorted(k))) for a, k, b in valid}
            for c in calls:
                c['sorted'] = (c['np'], tuple(sorted(c['kw']))) in validset
            yield {'tid': 'bind/%d' % i, 'op': 'bind', 'ps': ps, 'calls': calls, 'case': {'ps': ps}}
            made = support.make_up_callsigs(sig, extra=2)
            yield {'tid': 'makeup/%d' % i, 'op': 'makeup', 'ps': ps, 'extra': 2,
                   'made': [{'np': len(a), 'kw': sorted(k)} for a, k in made], 'case': {'ps': ps}}
    return gen


def describe(e, case):
    if e['op'] == 'bind':
        n_ok = sum(1 for c in e['calls'] if c['py']['ok'])
        return json.dumps(e['ps'], sort_keys=True), not e['ps'], 'def f%s: %d shapes really called, %d accepted by CPython' % (
            absig.sig_str(e['ps']), len(e['calls']), n_ok)
    return 'makeup' + json.dumps(e['ps'], sort_keys=True), not e['ps'], 'make_up_callsigs%s: %d call signatures' % (absig.sig_str(e['ps']), len(e.get('made', ())))


def run(check, tier, seed, scratch):
    quick = tier == 'quick'
    U = tlc.export_universe(scratch, 'ab', ['args'], ['kwargs'], 2) if quick else tlc.export_universe(scratch, 'abc', ['args'], ['kwargs'], 3)
    # (M) sanity model of the oracle
    d = scratch.sub('model')
    cfg = tlc.write_cfg(d + '/PyBindMachine.cfg', spec='Spec', constants=dict(Names=set('ab' if quick else 'abc'), StarV={'args'}, StarK={'kwargs'},
                                                                              MaxNamed=2 if quick else 3),
                        invariants=['Inv_AcceptsIsBindOk', 'Inv_MapTotal', 'Inv_EveryArgumentDelivered', 'Inv_MonotoneInDefaults'])
    r = tlc.run_tlc('PyBindMachine', cfg, scratch, workers=tlc.NCPU, timeout=3000, xmx='8g')
    check.add_model_run('pybind-machine', r)
    if r.invariants_violated:
        check.error('PyBindMachine invariant violated: %s' % r.invariants_violated)
    ncalls = [0]
    res = run_trace_leg(check, scratch, 'bindagree', bind_events(U), None, module='Trace_PyBind', describe=describe)
    from . import c20_roundtrip
    c20_roundtrip.run_part(check, tier, seed, scratch)
    check.cov['exhaustive'] = True
    check.cov['rule'] = ('every signature of the %d-signature universe x every shape of the complete call set (np 0..P+1, keyword subsets of its names + '
                         'a foreign one) really called with distinguishable values, three-way comparison; make_up_callsigs per signature; plus the textual '
                         'round trip (see roundtrip leg); distinct by signature' % len(U))
    check.assumptions += ['excluded, as in the property: a keyword naming a positional-only parameter alongside **kwargs']


def replay(check, case, scratch):
    c = case['case']
    if 'ps' in c and 'opts' not in c:
        run_trace_leg(check, scratch, 'replay', bind_events([c['ps']]), None, nshards=1, module='Trace_PyBind', describe=describe)
    else:
        from . import c20_roundtrip
        c20_roundtrip.replay(check, case, scratch)
