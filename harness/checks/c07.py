"""C07 -- retrieval is total and only ever narrows the callable's own signature.

(M)  spec/Fallback.tla: the fallback chain forger -> hint -> discovery -> plain with every stage's outcome an environment choice and the code's
     catch rules; invariant C07_Total (a signature iff inspect gives one, else the same exception class; only a declared forger's ValueError may
     surface).  With SourceFailuresMapped = FALSE (the pinned code) TLC shows SyntaxError / AttributeError escaping from the discovery stage.
(T)  corpus: every function, class, method, builtin, partial and callable instance reachable from the importable standard library, /venv's
     site-packages sample and sigtools' own API, plus generated adversarial sources (async, generators, walrus, match, comprehensions, starred
     calls, global/nonlocal, class bodies, decorators, lambdas inside expressions and containers, exec-defined functions without source).  Per
     object: inspect.signature outcome, the three retrieval outcomes, own def parameters for plain functions, the Sphinx hook next to the string
     forms of the evaluated signature.  TLC (Trace_Corpus) checks totality, same exception class, upgraded results, narrowing on the complete call
     set, and the hook.
"""
import functools
import importlib
import inspect
import json
import os
import pkgutil
import random
import sys
import types
import warnings

from .. import tlc, absig, progs
from ..algebra import run_trace_leg

LEVEL = 'model_checking'
SKIP_MODULES = {'antigravity', 'this', 'idlelib', 'tkinter', 'turtle', 'turtledemo', 'lib2to3', 'test', 'pydoc_data', 'ensurepip', 'venv', '__main__', 'pip', 'setuptools',
                'pkg_resources', 'distutils', 'msilib', 'nt', 'winreg', 'winsound', 'msvcrt', '_winapi', 'curses', 'readline', 'crypt', 'ossaudiodev', 'spwd', 'nis', 'imp', 'asyncore',
                'asynchat', 'smtpd', 'pty', 'tty', 'rlcompleter', 'webbrowser', 'code', 'codeop', 'pdb', 'bdb', 'cgitb', 'cgi', 'telnetlib', 'nntplib', 'sndhdr', 'pipes', 'xdrlib',
                'uu', 'mailcap', 'imghdr', 'audioop', 'aifc', 'sunau', 'chunk', 'tracemalloc', 'faulthandler', 'sre_compile', 'sre_constants', 'sre_parse'}


def stdlib_modules():
    names = sorted(n for n in sys.stdlib_module_names if not n.startswith('_') and n not in SKIP_MODULES)
    return names + ['sigtools', 'sigtools.signatures', 'sigtools.specifiers', 'sigtools.modifiers', 'sigtools.wrappers', 'sigtools.support', 'sigtools._autoforwards',
                    'sigtools._signatures', 'sigtools._util', 'attr', 'sphinx.util', 'docutils.utils', 'jinja2.utils']


def objects_of(modname):
    try:
        with warnings.catch_warnings():
            warnings.simplefilter('ignore')
            mod = importlib.import_module(modname)
    except BaseException:  # noqa
        return
    seen = set()
    for name, obj in sorted(vars(mod).items(), key=lambda kv: kv[0]):
        if name.startswith('__') or id(obj) in seen:
            continue
        seen.add(id(obj))
        if isinstance(obj, types.ModuleType):
            continue
        if callable(obj):
            yield '%s.%s' % (modname, name), obj
        if isinstance(obj, type):
            for mname, m in sorted(vars(obj).items(), key=lambda kv: kv[0]):
                if mname.startswith('__') and mname not in ('__init__', '__call__', '__new__'):
                    continue
                try:
                    bound = getattr(obj, mname)
                except BaseException:  # noqa
                    continue
                if callable(bound) and id(bound) not in seen:
                    seen.add(id(bound))
                    yield '%s.%s.%s' % (modname, name, mname), bound


ADVERSARIAL = r'''
import functools, contextlib, asyncio
def target(x, y=1, *, z=2): return x, y, z
async def a_fwd(*args, **kwargs): return target(*args, **kwargs)
def gen_fwd(*args, **kwargs): yield target(*args, **kwargs)
async def agen_fwd(*args, **kwargs): yield target(*args, **kwargs)
def walrus_fwd(*args, **kwargs): return (r := target(*args, **kwargs))
def match_fwd(cmd, *args, **kwargs):
    match cmd:
        case {"k": kwargs}: return target(*args, **kwargs)
        case [first, *args]: return target(*args, **kwargs)
        case _: return target(*args, **kwargs)
def compr_fwd(*args, **kwargs): return [target(*args, **kwargs) for _ in range(2)], {k: target(*args, **kwargs) for k in 'ab'}, {target(*args, **kwargs) for _ in 'a'}
def genexp_fwd(*args, **kwargs): return list(target(*args, **kwargs) for _ in range(2))
def starred_fwd(*args, **kwargs): return target(*args, *args, **kwargs, **kwargs)
def global_fwd(*args, **kwargs):
    global target
    return target(*args, **kwargs)
def nonlocal_outer():
    t = target
    def nonlocal_fwd(*args, **kwargs):
        nonlocal t
        return t(*args, **kwargs)
    return nonlocal_fwd
nonlocal_fwd = nonlocal_outer()
class Body:
    def meth(self, *args, **kwargs): return target(*args, **kwargs)
    @classmethod
    def cmeth(cls, *args, **kwargs): return target(*args, **kwargs)
    @staticmethod
    def smeth(*args, **kwargs): return target(*args, **kwargs)
    @property
    def prop(self): return 1
    lam = lambda self, *a, **k: target(*a, **k)
    def __call__(self, *args, **kwargs): return target(*args, **kwargs)
body_instance = Body()
bound_meth = Body().meth
@functools.lru_cache(maxsize=None)
def cached_fwd(*args, **kwargs): return target(*args, **kwargs)
@contextlib.contextmanager
def cm_fwd(*args, **kwargs): yield target(*args, **kwargs)
lam_assigned = lambda *args, **kwargs: target(*args, **kwargs)
lam_in_list = [lambda *args, **kwargs: target(*args, **kwargs)][0]
lam_in_call = (lambda f: f)(lambda *args, **kwargs: target(*args, **kwargs))
lam_in_dict = {'k': lambda *args, **kwargs: target(*args, **kwargs)}['k']
lam_two = (lambda *a, **k: target(*a, **k), lambda *a, **k: 0)[0]
def deco(f):
    @functools.wraps(f)
    def inner(*args, **kwargs): return f(*args, **kwargs)
    return inner
@deco
@deco
def stacked(x, y): return x, y
def try_fwd(*args, **kwargs):
    try: return target(*args, **kwargs)
    except* ValueError: pass
    finally: pass
def with_fwd(*args, **kwargs):
    with contextlib.nullcontext() as args: return target(*args, **kwargs)
def del_fwd(*args, **kwargs):
    del kwargs
    return target(*args)
def fstring_fwd(*args, **kwargs): return f"{target(*args, **kwargs)!r:>{len(args)}}"
def annotated_fwd(*args: int, **kwargs: 'str') -> 'None': return target(*args, **kwargs)
def default_capture(*args, **kwargs): return (lambda k=kwargs: target(*args, **k))()
def cls_in_func(*args, **kwargs):
    class Inner:
        v = target(*args, **kwargs)
    return Inner
def posonly_fwd(f, /, *args, **kwargs): return f(*args, **kwargs)
partial_posonly = functools.partial(posonly_fwd, target)
partial_kw = functools.partial(target, y=5)
partial_nested = functools.partial(functools.partial(target, 1), z=3)
def self_recursive(*args, **kwargs): return self_recursive(*args, **kwargs)
def mutual_a(*args, **kwargs): return mutual_b(*args, **kwargs)
def mutual_b(*args, **kwargs): return mutual_a(*args, **kwargs)
def unresolved_fwd(*args, **kwargs): return not_defined_anywhere(*args, **kwargs)
def attr_chain_fwd(*args, **kwargs): return functools.partial.__call__(*args, **kwargs)
def builtin_fwd(*args, **kwargs): return print(*args, **kwargs)
def type_fwd(*args, **kwargs): return dict(*args, **kwargs)
class WithSlots:
    __slots__ = ()
    def __call__(self, *args, **kwargs): return target(*args, **kwargs)
slots_instance = WithSlots()
class SigProp:
    @property
    def __signature__(self): raise AttributeError('no')
    def __call__(self, a, b): return a, b
sigprop_instance = SigProp()
class BadSig:
    __signature__ = 'not a signature'
    def __call__(self, a): return a
badsig_instance = BadSig()
exec("def no_source(*args, **kwargs): return target(*args, **kwargs)")
# nested constructs inside a forwarding function
def nested_async_fwd(*args, **kwargs):
    async def inner_coro(): return target(*args, **kwargs)
    return inner_coro
def nested_async_gen_fwd(*args, **kwargs):
    async def inner_agen():
        async with contextlib.AsyncExitStack() as st:
            async for _ in aiter_none():
                yield target(*args, **kwargs)
        yield [target(*args, **kwargs) async for _ in aiter_none()]
    return inner_agen
def nested_gen_fwd(*args, **kwargs):
    def inner_gen(): yield from (target(*args, **kwargs) for _ in range(1))
    return inner_gen
def nested_class_fwd(*args, **kwargs):
    class Inner:
        def meth(self): return target(*args, **kwargs)
        async def ameth(self): return await asyncio.sleep(0, target(*args, **kwargs))
    return Inner
def nested_lambda_default_fwd(*args, **kwargs): return (lambda a=args, k=kwargs: target(*a, **k))
def nested_try_star_fwd(*args, **kwargs):
    def inner():
        try: return target(*args, **kwargs)
        except* TypeError as eg: raise
    return inner
def nested_match_fwd(*args, **kwargs):
    def inner(v):
        match v:
            case {"a": 1, **rest}: return target(*args, **rest)
            case (1, *others): return target(*others, **kwargs)
    return inner
def nested_global_fwd(*args, **kwargs):
    def inner():
        global target
        return target(*args, **kwargs)
    return inner
def nested_decorated_fwd(*args, **kwargs):
    @functools.wraps(target)
    def inner(*a, **k): return target(*args, *a, **kwargs, **k)
    return inner
def nested_type_params_fwd[T](*args: T, **kwargs: T) -> T:
    def inner[U](u: U) -> U: return target(*args, **kwargs)
    return inner
async def aiter_none():
    if False: yield
# callees that give the same name different roles: the merged result has no valid parameter list
def cw1(a, **k): return a
def cw2(b, *, a, **k): return a
def cw3(b, a, /): return a
def cw4(*a, b): return a
def cw5(a, b=1, *args, c): return a
def clash12(*args, **kwargs): cw1(*args, **kwargs); return cw2(*args, **kwargs)
def clash13(*args, **kwargs): cw1(*args, **kwargs); return cw3(*args, **kwargs)
def clash23(*args, **kwargs): cw2(*args, **kwargs); return cw3(*args, **kwargs)
def clash14(*args, **kwargs): cw1(*args, **kwargs); return cw4(*args, **kwargs)
def clash24(*args, **kwargs): cw4(*args, **kwargs); return cw2(*args, **kwargs)
def clash15(*args, **kwargs): cw5(*args, **kwargs); return cw1(*args, **kwargs)
def clash25(*args, **kwargs): cw5(*args, **kwargs); return cw2(*args, **kwargs)
def clash35(*args, **kwargs): cw3(*args, **kwargs); cw5(*args, **kwargs); return cw2(*args, **kwargs)
# forwarding calls whose OTHER arguments cannot be followed
NOT_ITERABLE = 5
NOT_A_MAPPING = 7
def star_const_fwd(*a, **k): return target(*NOT_ITERABLE, **k)
def dstar_const_fwd(*a, **k): return target(*a, **NOT_A_MAPPING)
def partial_of_stars(*a, **k): return functools.partial(*a, **k)
def self_call_more_args(*a, **k): return self_call_more_args(1, *a, **k)
def mutual_more_a(*a, **k): return mutual_more_b(0, *a, **k)
def mutual_more_b(*a, **k): return mutual_more_a(0, 1, *a, **k)
def two_params(a, b): return a, b
def fwd_two(*args, **kwargs): return two_params(*args, **kwargs)
partial_overbound = functools.partial(fwd_two, 1, 2, 3)
partial_unknown_kw = functools.partial(fwd_two, z=1)
partial_twice = functools.partial(fwd_two, 1, a=2)
class UnhashableCallable:
    __hash__ = None
    def __eq__(self, other): return True
    def __call__(self, a, b=1): return a, b
unhashable_instance = UnhashableCallable()
def clash_branch(flag, *args, **kwargs):
    if flag: return cw2(*args, **kwargs)
    else: return cw1(flag, *args, **kwargs)
# methods without a named instance parameter; an unhashable instance; a class whose INSTANCES forward; two self-calls with more arguments
def kwonly_target(*, a): return a
class StarMethods:
    def star_only(*args, **kwargs): return kwonly_target(*args, **kwargs)
    def star_only_ok(*args, **kwargs): return two_params(*args, **kwargs)
    def no_positional(*, k=1, **kwargs): return k
star_only_bound = StarMethods().star_only
star_only_ok_bound = StarMethods().star_only_ok
no_positional_bound = StarMethods().no_positional
class PlainUnhashable:
    __hash__ = None
    def __call__(self, a, b): return a, b
plain_unhashable_instance = PlainUnhashable()
class CtorAndCall:
    def __init__(self, x): self.x = x
    def __call__(self, *args, **kwargs): return two_params(*args, **kwargs)
ctor_and_call_instance = CtorAndCall(1)
def self_call_twice(*a, **k):
    self_call_twice(1, *a, **k)
    return self_call_twice(2, *a, **k)
def self_call_thrice(*a, **k): return [self_call_thrice(x, *a, **k) for x in (1, 2)] + [self_call_thrice(*a, z=1, **k)]
# reported by sub-agents: things around a forwarding call that raise when discovery merely LOOKS at them
def tag(name, **attrs): return name, attrs
partial_non_identifier_kw = functools.partial(tag, 'div', **{'class': 'x', 'data-x': 'y'})
class RaisingProperty:
    @property
    def conn(self): raise RuntimeError('not connected')
    def run(self, *args, **kwargs): return self.conn.execute(*args, **kwargs)
raising_property_bound = RaisingProperty().run
class EqRaises:
    def __eq__(self, other): raise TypeError('no comparison')
    __hash__ = object.__hash__
    def __call__(self, x, y=1): return x, y
eq_raises_instance = EqRaises()
def fwd_to_eq_raises(*args, **kwargs): return eq_raises_instance(*args, **kwargs)
class NoTruth:
    def __eq__(self, other): return self
    __hash__ = object.__hash__
    def __bool__(self): raise TypeError('truth value is ambiguous')
NA = NoTruth()
def default_without_truth(x=NA, *, k=NA): return x
def fwd_to_default_without_truth(*args, **kwargs): return default_without_truth(*args, **kwargs)
import unittest.mock
mock_instance = unittest.mock.Mock()
def fwd_to_mock(*args, **kwargs): return mock_instance(*args, **kwargs)
def po_and_kwargs(a, /, **kwargs): return a, kwargs
partial_kw_named_like_posonly = functools.partial(po_and_kwargs, a=5)
partial_kw_named_like_consumed_posonly = functools.partial(po_and_kwargs, 1, a=5)
def only_stars(*args, **kwargs): return args, kwargs
partial_kw_named_like_star = functools.partial(only_stars, args=5)
# sigtools' own wrapper OBJECTS as subjects of discovery: behind a partial object, around a class with __call__, stacked deep over a chain
from sigtools import wrappers as _wr
@_wr.wrapper_decorator
def logged(func, *args, **kwargs): return func(*args, **kwargs)
@logged
def logged_target(a, b, c=3): return a, b, c
partial_of_wrapper_decorated = functools.partial(logged_target, 1)
@_wr.decorator
def deco_o0(func, *args, o0=0, **kwargs): return func(*args, **kwargs)
@_wr.decorator
def deco_o1(func, *args, o1=0, **kwargs): return func(*args, **kwargs)
@_wr.decorator
def deco_o2(func, *args, o2=0, **kwargs): return func(*args, **kwargs)
class CallableClass:
    def __init__(self, a, b=2): self.a = a
    def __call__(self, q): return q
decorated_class_with_call = deco_o1(CallableClass)
def chain_h(a, b=2): return a, b
def chain_f1(*args, **kwargs): return chain_h(*args, **kwargs)
def chain_f2(*args, **kwargs): return chain_f1(*args, **kwargs)
def chain_f3(*args, **kwargs): return chain_f2(*args, **kwargs)
deep_stack_over_chain = deco_o2(deco_o1(deco_o0(chain_f3)))
# reported by fifth-round sub-agents
class BoolRaises:
    def __bool__(self): raise ValueError('no truth value')
    def __call__(self, fn: int) -> int: return fn
bool_raises_instance = BoolRaises()
class RowsRaise:
    @property
    def rows(self): return iter_raises()
    def all_rows(self, **kw): return two_params(*self.rows, **kw)
def iter_raises():
    raise RuntimeError('not connected')
    yield
rows_raise_bound = RowsRaise().all_rows
class SigRaisesRuntime:
    @property
    def __signature__(self): raise RuntimeError('lazy proxy not ready')
    def __call__(self, a): return a
sig_raises_runtime = SigRaisesRuntime()
def fwd_to_sig_raises(*a, **k): return sig_raises_runtime(*a, **k)
class AnswersNone:
    def __getattr__(self, name):
        if name.startswith('__'): raise AttributeError(name)
        return None
    def __call__(self, a, b=1): return a
answers_none_instance = AnswersNone()
class AnswersName(AnswersNone):
    def __getattr__(self, name):
        if name.startswith('__'): raise AttributeError(name)
        return name
answers_name_instance = AnswersName()
exec("def long_expression(*args, **kwargs): return " + " + ".join(["1"] * 700) + " + target(*args, **kwargs)")
class FalsyCallable:
    def __len__(self): return 0
    def __call__(self, a: int, b: str = 's') -> bool: return True
falsy_callable_instance = FalsyCallable()
'''


# a module compiled with postponed annotations whose evaluation fails in other ways than NameError; documented through the Sphinx hook as well
ADVERSARIAL_FUTURE = r'''
import functools, typing, collections.abc
CONFIG = {}
def ann_attr(a: typing.DoesNotExist, *args, **kwargs) -> typing.NoSuchThing: return a
def ann_type(a: collections.abc.Sized[int][str], b: 1 + 'x' = 2): return a
def ann_key(a: CONFIG["missing"]): return a
def ann_zero(a: (1 // 0)): return a
def ann_name(a: OnlyForTypeChecking, *, k: AlsoMissing = None) -> Missing: return a
def ann_syntax_like(a: "not valid python !"): return a
def real_annotations(a: int, b: str = 's') -> bool: return True
def target_ok(x: int, y: str = 's', *, z: float = 1.0) -> bool: return True
def fwd_with_bad_annotations(first: typing.DoesNotExist, *args, **kwargs) -> CONFIG["missing"]: return target_ok(*args, **kwargs)
@functools.wraps(real_annotations)
def wraps_real(*args, **kwargs): return real_annotations(*args, **kwargs)
'''

# functions defined in a namespace whose __builtins__ is the MODULE (as in __main__, the REPL, python -m), reaching for builtin / undefined names
BUILTINS_MODULE_SRC = r'''
def calls_builtin(*args, **kwargs): return print(*args, **kwargs)
def passes_builtin(*args, **kwargs): return target_b(sorted, *args, **kwargs)
def calls_undefined(*args, **kwargs): return this_name_is_not_defined(*args, **kwargs)
def target_b(f, x, y=1): return x
'''


class _Timeout(BaseException):
    pass


def with_timeout(thunk, seconds=20):
    """a retrieval that does not come back is a retrieval that failed: reported as raising Timeout"""
    import signal

    def on_alarm(signum, frame):
        raise _Timeout()
    old = signal.signal(signal.SIGALRM, on_alarm)
    signal.alarm(seconds)
    try:
        return thunk()
    finally:
        signal.alarm(0)
        signal.signal(signal.SIGALRM, old)


def adversarial_objects():
    g, fname = progs.compile_module(ADVERSARIAL)
    for name, obj in sorted(g.items()):
        if name.startswith('__') or isinstance(obj, types.ModuleType) or not callable(obj) or name in ('S',) or isinstance(obj, absig.Sentinel):
            continue
        yield 'adv.' + name, obj
        if isinstance(obj, type):
            for mname in sorted(vars(obj)):
                if not mname.startswith('__') or mname == '__call__':
                    try:
                        m = getattr(obj, mname)
                    except BaseException:  # noqa
                        continue
                    if callable(m):
                        yield 'adv.%s.%s' % (name, mname), m


def odd_source_objects():
    """a function whose code object claims to come from an existing file that is not Python"""
    import tempfile
    d = tempfile.mkdtemp(prefix='sigtools-c07-')
    path = os.path.join(d, 'notes.txt')
    with open(path, 'w') as fh:
        fh.write("it's not python\n" * 3)
    g = {}
    exec(compile("def target(x, y=1): return x\ndef from_text_file(*args, **kwargs): return target(*args, **kwargs)\n", path, 'exec'), g)
    yield 'adv.from_text_file', g['from_text_file'], d


def future_objects():
    """-> (name, object) of the future-flag module and of the builtins-module namespace; names get one dot so that the Sphinx hook is run on them"""
    import builtins
    for modname, (g, fname) in (('verif_futuremod', progs.compile_module(ADVERSARIAL_FUTURE, future=True)),
                                ('verif_builtinsmod', progs.compile_module(BUILTINS_MODULE_SRC, {'__builtins__': builtins}))):
        # the hook fetches the object by its dotted name: the namespace is made importable under that name
        m = types.ModuleType(modname)
        sys.modules[modname] = m
        for name, obj in sorted(g.items()):
            if isinstance(obj, types.FunctionType) and obj.__code__.co_filename == fname:
                setattr(m, name, obj)
                yield modname + '.' + name, obj


def outcome(thunk, declared=False):
    from sigtools import signatures
    try:
        with warnings.catch_warnings():
            warnings.simplefilter('ignore')
            r = with_timeout(thunk)
    except BaseException as e:  # noqa
        return {'tag': 'raise', 'exc': type(e).__name__.lstrip('_'), 'ps': [], 'upgraded': False, 'declared': declared}
    try:
        ps = absig.project_params(r)
    except Exception:  # noqa
        ps = []
    up = isinstance(r, signatures.UpgradedSignature) and all(isinstance(p, signatures.UpgradedParameter) for p in r.parameters.values())
    return {'tag': 'sig', 'exc': '', 'ps': [dict(p, dv=0, an=0) for p in ps], 'upgraded': up, 'declared': declared}


def is_plain_function(obj):
    f = obj.__func__ if isinstance(obj, types.MethodType) else obj
    if not isinstance(f, types.FunctionType):
        return False
    d = getattr(f, '__dict__', {})
    return not any(k in d for k in ('__wrapped__', '__signature__', '_sigtools__forger', '_sigtools__autoforwards_hint'))


def has_declared_forger(obj):
    try:
        from sigtools import _util
        return getattr(_util.get_introspectable(obj), '_sigtools__forger', None) is not None
    except BaseException:  # noqa
        return False


def obj_event(tid, name, obj, sphinx=True):
    import sigtools
    from sigtools import signatures
    insp = outcome(lambda: inspect.signature(obj))
    declared = has_declared_forger(obj)
    routes = [dict(outcome(lambda: sigtools.signature(obj), declared), route='auto'), dict(outcome(lambda: sigtools.signature(obj, auto=False), declared), route='noauto'),
              dict(outcome(lambda: signatures.signature(obj)), route='signatures')]
    plainfn = is_plain_function(obj) and insp['tag'] == 'sig'
    own = insp['ps'] if plainfn else []
    nnames = max([len(own)] + [len(r['ps']) for r in routes])
    sph = {'tag': 'skip', 'got': '-', 'expected': '-'}
    if sphinx and name.count('.') >= 1 and not name.startswith('adv.'):
        from sigtools import sphinxext
        try:
            got = sphinxext.process_signature(None, 'function', name, obj, None, 'SIG', 'RET')
            sph = {'tag': 'ok', 'got': json.dumps(got), 'expected': '-'}
            if isinstance(obj, types.FunctionType) and name.count('.') == 1:
                # module-level functions: the hook must return the string forms of the evaluated signature (both sides real)
                try:
                    ev = sigtools.signature(obj).evaluated()
                    ra = ev.return_annotation
                    sph['expected'] = json.dumps([str(ev.replace(return_annotation=ev.empty)) if ra is not ev.empty else str(ev), repr(ra) if ra is not ev.empty else ''])
                except Exception:  # noqa
                    pass
        except BaseException as e:  # noqa
            sph = {'tag': 'raise', 'got': type(e).__name__, 'expected': '-'}
    return {'tid': tid, 'op': 'obj', 'name': name, 'insp': insp, 'routes': routes, 'plainfn': plainfn, 'own': own, 'small': nnames <= 7, 'sphinx': sph,
            'case': {'name': name, 'unhashable': unhashable(obj), 'excs': sorted({r['exc'] for r in routes if r['tag'] == 'raise'})}}


def sphinx_module_event(tid, modname):
    from sigtools import sphinxext
    mod = importlib.import_module(modname)
    try:
        got = sphinxext.process_signature(None, 'module', modname, mod, {}, None, None)
        sph = {'tag': 'ok', 'got': json.dumps(got), 'expected': '-'}
    except BaseException as e:  # noqa
        sph = {'tag': 'raise', 'got': type(e).__name__, 'expected': '-'}
    none = {'tag': 'raise', 'exc': 'TypeError', 'ps': [], 'upgraded': False, 'declared': False}
    return {'tid': tid, 'op': 'obj', 'name': modname, 'insp': none, 'routes': [dict(none, route='auto')], 'plainfn': False, 'own': [], 'small': True, 'sphinx': sph,
            'case': {'name': modname, 'unhashable': False, 'excs': []}}


def unhashable(obj):
    try:
        hash(obj)
    except TypeError:
        return True
    except BaseException:  # noqa
        return False
    return False


# ------------------------------------------------------------------------------------------------ recursion graphs (spec/Recursion.tla)
REC_CONST = dict(Funcs={'f1', 'f2'}, Root='f1', MaxCalls=2, DepthBound=32, VisitBudget=256, KeyMode='func+args', StepBound=100000)


def recursion_model(check, scratch):
    """every call graph over two forwarding functions with <= 2 calls each, analysed by the model of the code's guard; -> behaviours"""
    d = scratch.sub('recursion')
    cfg = tlc.write_cfg(os.path.join(d, 'Recursion.cfg'), spec='Spec', constants=dict(REC_CONST, Export=True),
                        invariants=['DepthRespected', 'WorkBounded'], properties=['Terminates'], constraints=['ExportLine'])
    r = tlc.run_tlc('Recursion', cfg, scratch, workers=1, timeout=1800, xmx='6g', coverage=True)
    check.add_model_run('Recursion(depth 32, budget 256, key func+args)', r)
    if r.invariants_violated or not r.ok:
        check.error('Recursion: %s\n%s' % (r.invariants_violated, r.out[-1500:]))
    # the variants the code does NOT have: no visit budget (exponential work under the depth bound alone), no guard at all
    for name, const in (('no budget, depth 10', dict(REC_CONST, DepthBound=10, VisitBudget=0, StepBound=600)),
                        ('no guard', dict(REC_CONST, DepthBound=1000, VisitBudget=0, KeyMode='none', StepBound=600))):
        cfg = tlc.write_cfg(os.path.join(d, 'Recursion-%s.cfg' % name.split(',')[0].replace(' ', '_')), spec='Spec', constants=dict(const, Export=False), invariants=['WithinStepBound'])
        r2 = tlc.run_tlc('Recursion', cfg, scratch, workers=4, timeout=900, xmx='6g')
        check.legs['Recursion(%s): WithinStepBound (expected to fail: documents why the guard has three parts)' % name] = {'distinct': r2.distinct, 'violated': bool(r2.invariants_violated)}
        if not r2.invariants_violated:
            check.error('Recursion(%s): expected WithinStepBound to be violated' % name)
    return [json.loads('|'.join(f)) for f in r.lines('BEH')]


def render_graph(graph):
    L = ['def t(*x, **y):', '    return None']
    for f in sorted(graph):
        L.append('def %s(*a, **k):' % f)
        for c in graph[f]:
            L.append('    %s(%s*a, **k)' % (c['callee'], 'S, ' if c['extra'] else ''))
        L.append('    return None')
    return '\n'.join(L) + '\n'


def recursion_event(tid, beh):
    import sigtools
    from sigtools import _autoforwards
    graph = beh['graph']
    src = render_graph(graph)
    g, fname = progs.compile_module(src)
    real = []
    orig = _autoforwards._autoforwards_function

    def recording(func, args, kwargs):
        real.append([getattr(func, '__name__', '?'), len(args)])
        return orig(func, args, kwargs)
    try:
        _autoforwards._autoforwards_function = recording
        try:
            with_timeout(lambda: sigtools.signature(g['f1']))
        except BaseException:  # noqa  (the routes of obj_event report it)
            pass
        finally:
            _autoforwards._autoforwards_function = orig
        e = obj_event(tid, 'rec.f1', g['f1'], sphinx=False)
    finally:
        progs.drop_cache(fname)
    e['rec'] = {'model': [list(x) for x in beh['started']], 'real': real}
    e['case'] = dict(e['case'], graph=graph, src=src)
    return e


def recursion_gen(behs):
    def gen(shard, nshards):
        for k, b in enumerate(behs):
            if k % nshards == shard:
                yield recursion_event('rec/%d' % k, b)
    return gen


def corpus_gen(mods, seed, frac):
    def gen(shard, nshards):
        rnd = random.Random(seed)
        k = 0
        for mi, modname in enumerate(mods):
            if mi % nshards != shard:
                continue
            for name, obj in objects_of(modname):
                if rnd.random() >= frac:
                    continue
                yield obj_event('corpus/%s' % name, name, obj)
                k += 1
        if shard == 0:
            for name, obj in adversarial_objects():
                yield obj_event('adv/%s' % name, name, obj)
            for name, obj in future_objects():
                yield obj_event('adv/%s' % name, name, obj)
            import shutil
            for name, obj, tmpd in odd_source_objects():
                try:
                    yield obj_event('adv/%s' % name, name, obj)
                finally:
                    shutil.rmtree(tmpd, ignore_errors=True)
            # the hook is also asked about modules themselves (a dotless name)
            yield sphinx_module_event('adv/sphinx-module-json', 'json')
    return gen


def describe(e, case):
    return e['name'], False, '%s: inspect %s; sigtools %s' % (e['name'], e['insp']['tag'] if e['insp']['tag'] != 'raise' else e['insp']['exc'],
                                                            [r['tag'] if r['tag'] == 'sig' else r['exc'] for r in e['routes']])


def classify(tid, clause, case):
    # known finding: provenance maps are dictionaries keyed by the callable, which an unhashable callable instance cannot be
    if clause == 'C07_RaisesWhereInspectSucceeds' and case.get('unhashable') and case.get('excs') == ['TypeError']:
        return 'unhashable-callable-instance'
    # known finding: a partial object's keyword spelled like a positional-only or star parameter lands in **kwargs; the result would need two
    # parameters of one name
    if clause == 'C07_RaisesWhereInspectSucceeds' and case.get('excs') == ['ValueError'] and str(case.get('name', '')).startswith('adv.partial_kw_named_like_'):
        return 'partial-keyword-named-like-positional-only-or-star-parameter'
    return clause


def run(check, tier, seed, scratch):
    quick = tier == 'quick'
    d = scratch.sub('fallback')
    cfg = tlc.write_cfg(os.path.join(d, 'Fallback.cfg'), spec='Spec', constants=dict(SourceFailuresMapped=True), invariants=['C07_Total'], properties=['Terminates'])
    r = tlc.run_tlc('Fallback', cfg, scratch, workers=2, timeout=600, coverage=True)
    check.add_model_run('Fallback(chain with the code\'s catch rules)', r)
    if r.invariants_violated or not r.ok:
        check.error('Fallback: %s\n%s' % (r.invariants_violated, r.out[-1500:]))
    behs = recursion_model(check, scratch)
    check.cov['recursion_graphs'] = len(behs)
    run_trace_leg(check, scratch, 'recursion-graphs', recursion_gen(behs), None, module='Trace_Corpus', describe=describe, classify=classify)
    mods = stdlib_modules()
    run_trace_leg(check, scratch, 'corpus', corpus_gen(mods, seed, 0.35 if quick else 1.0), None, module='Trace_Corpus', describe=describe, classify=classify)
    # narrowing, systematically: forwarding wrappers from the signature universe (function, closure, method, attribute routes), discovered, and
    # really called on the complete call set -- a call the discovered signature accepts must not be refused by the wrapper's own def
    from . import c04
    from .. import alggen
    U2 = tlc.export_universe(scratch, 'ab', ['args'], ['kwargs'], 2)
    UO = [ps for ps in U2 if alggen.has_star(ps)]
    UI = [c04.rename(ps, {'a': 'x', 'b': 'y'}) for ps in U2]

    def grid(shard, nshards):
        r2 = random.Random(seed + 41)
        for k in range(4000 if quick else 100000):
            a, b = r2.randrange(len(UO)), r2.randrange(len(UI))
            fl = dict(c04.written_flags(UO[a], UI[b], r2), partial=False)
            placement = ['auto', 'auto_closure', 'auto_method', 'auto_attr', 'auto_wraps', 'auto_hint'][k % 6]
            if k % nshards == shard:
                yield c04.prog_event('narrow/%d-%s' % (k, placement), UO[a], UI[b], fl, placement)

    def classify_grid(tid, clause, case):
        if clause == 'C04_AcceptedCallRaisesTypeError':
            return 'C07_AcceptedCallRefusedByOwnDefOrCallee'
        if clause == 'C07_RetrievalRaised':
            return clause
        return 'IGNORE'
    run_trace_leg(check, scratch, 'narrowing-grid', grid, None, module='Trace_Exec', describe=c04.describe, classify=classify_grid)
    check.failures = [f for f in check.failures if f['key'] != 'IGNORE']
    check.cov['exhaustive'] = False
    check.cov['rule'] = ('%d modules (importable standard library, sigtools, attr, sphinx.util, docutils.utils, jinja2.utils): every callable module attribute and every callable class '
                         'attribute (%s), plus %d generated adversarial callables; per object inspect.signature vs sigtools.signature (auto on/off) vs signatures.signature, narrowing '
                         'for plain functions on the complete call set (<= 7 names; larger: keyword subsets <= 2), Sphinx hook' % (len(mods), '35% sampled' if quick else 'all', 75))
    check.assumptions += ['the corpus is what is importable offline in this sandbox', 'arbitrary Python syntax is covered by the corpus and the adversarial sources, not by the model']


def replay(check, case, scratch):
    name = case['case']['name']

    def gen(shard, nshards):
        if shard != 0:
            return
        if name.startswith('adv.'):
            for n, o in adversarial_objects():
                if n == name:
                    yield obj_event(case['tid'], n, o)
        else:
            parts = name.split('.')
            for cut in range(len(parts) - 1, 0, -1):
                for n, o in objects_of('.'.join(parts[:cut])):
                    if n == name:
                        yield obj_event(case['tid'], n, o)
                        return
    run_trace_leg(check, scratch, 'replay', gen, None, nshards=1, module='Trace_Corpus', describe=describe, classify=classify)
