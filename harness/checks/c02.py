"""C02 -- embed: result = calling outer, which forwards *args/**kwargs to inner.

(M)  SigMachine Op = embed, Arity 2, all four use_varargs/use_varkwargs pairs: C02_Sound / C02_Exact / C02_RaiseOnlyWhen.
(T)  real embed over all ordered pairs x flag pairs (the non-default flag pairs sampled in quick); laws, both sides real:
     params(embed(a, b, c)) = params(embed(embed(a, b), c));  embed((*args, **kwargs), s) has the parameters of s.
"""
import random

from .. import algebra, alggen, tlc, absig
from ..algebra import Universe, run_trace_leg, model_leg, law_event
from .c09 import STARS, STARS2

LEVEL = 'model_checking'
WANT = ['C02', 'LAW', 'DRIFT']


def law_gen(u, U, triples):
    from sigtools import signatures

    def gen(shard, nshards):
        bare = [signatures.signature(absig.make_func(STARS, name='f9')), signatures.signature(absig.make_func(STARS2, name='f9'))]
        for i in range(len(U)):
            if i % nshards != shard:
                continue
            s = u.sig(i, 1)
            for b, bs in enumerate(bare):
                yield law_event(u, 'neutral/%d-%d' % (i, b), 'C02_NeutralOuter', [lambda: signatures.embed(bs, s), lambda: s], cmp='ps',
                                case={'op': 'embed', 'ins': [STARS if b == 0 else STARS2, U[i]]})
        for t, (i, j, k) in enumerate(triples):
            if t % nshards != shard:
                continue
            a, b, c = u.sig(i, 1), u.sig(j, 2), u.sig(k, 3)
            yield law_event(u, 'fold/%d-%d-%d' % (i, j, k), 'C02_FoldLaw',
                            [lambda: signatures.embed(a, b, c), lambda: signatures.embed(signatures.embed(a, b), c)],
                            cmp='ps', case={'op': 'embed', 'ins': [U[i], U[j], U[k]]})
    return gen


def run(check, tier, seed, scratch):
    quick = tier == 'quick'
    U2 = tlc.export_universe(scratch, 'ab', ['args'], ['kwargs'], 2)
    U3 = tlc.export_universe(scratch, 'abc', ['args'], ['kwargs'], 2)
    UP = U2 if quick else U3
    base = dict(StarV={'args'}, StarK={'kwargs'}, Op='embed', MaxN=0, MaxNamesLen=0, HideFlags=False)
    cex = model_leg(check, scratch, 'embed-pairs-U220', dict(base, Names=set('ab'), MaxNamed=2, Arity=2), ['C02'])
    if not quick:
        cex += model_leg(check, scratch, 'embed-pairs-U580', dict(base, Names=set('abc'), MaxNamed=2, Arity=2), ['C02'], timeout=3000)
    check.cov['model_counterexamples'] = len(cex)
    up, u3, cu = Universe(UP), Universe(U3), algebra.CaseUniverse()
    triples = alggen.random_tuples(8000 if quick else 300000, len(U3), 3, seed)
    # inner parameters SPELLED like outer's star parameters (a regular parameter called args / kwargs): no collision, the star disappears
    from . import c04
    Ui = [c04.rename(ps, {'a': 'args', 'b': 'kwargs'}) for ps in tlc.export_universe(scratch, 'ab', ['rest'], ['kw'], 2)]
    Uo = [ps for ps in U2 if alggen.has_star(ps)]
    Umix = Uo + Ui
    pairs = [(i, len(Uo) + j) for i in range(len(Uo)) for j in range(len(Ui))]
    if quick:
        pairs = random.Random(seed + 9).sample(pairs, 6000)
    gen = alggen.chain(alggen.embed_pairs(up, UP, sample_other=0.2 if quick else 1.0, seed=seed), law_gen(u3, U3, triples),
                       alggen.embed_tuples(Universe(Umix), Umix, pairs, tag='embed-starnames'),
                       alggen.cex_events(cu, 'embed', cex))
    run_trace_leg(check, scratch, 'embed+laws', gen, WANT)
    check.cov['exhaustive'] = True
    check.cov['rule'] = ('every ordered (outer, inner) pair of the %d-signature universe with use_varargs=use_varkwargs=True%s; '
                         'neutral-outer law on all 580 signatures x 2 star spellings; fold law on %d seeded triples; distinct by (inputs, flags)'
                         % (len(UP), ', the other three flag pairs on a seeded 20%% sample' if quick else ' and with the other three flag pairs', len(triples)))
    check.assumptions += ['bound: <=2 named parameters per signature, names a,b%s' % ('' if quick else ',c'), 'PyBind!Accepts validated by C20',
                          'Comp (meaning of forwarding) is grounded against executed wrappers by check C04']


def replay(check, case, scratch):
    from sigtools import signatures
    cu = algebra.CaseUniverse()
    c = case['case']

    def gen(shard, nshards):
        if shard != 0:
            return
        if case['clause'] in ('C02_FoldLaw', 'C02_NeutralOuter'):
            fs = [absig.make_func(ps, name='f%d' % (k + 1)) for k, ps in enumerate(c['ins'])]
            ss = [signatures.signature(f) for f in fs]
            if case['clause'] == 'C02_FoldLaw':
                yield law_event(cu, case['tid'], 'C02_FoldLaw', [lambda: signatures.embed(*ss), lambda: signatures.embed(signatures.embed(ss[0], ss[1]), ss[2])], cmp='ps', case=c)
            else:
                yield law_event(cu, case['tid'], 'C02_NeutralOuter', [lambda: signatures.embed(ss[0], ss[1]), lambda: ss[1]], cmp='ps', case=c)
        else:
            yield algebra.case_event(cu, case['tid'], 'embed', c['ins'], c.get('fl'))
    run_trace_leg(check, scratch, 'replay', gen, WANT, nshards=1)
