"""C16 -- retrieval and algebra do not modify what they inspect, even when they fail.

Part (a), algebra purity (this file, section A):
(T)  every merge / embed / mask / forwards / sort_params+apply_params call on the real code logs the abstract projection of its
     inputs before and after and the object identities of every provenance container (the sources dict, its lists, '+depths')
     of inputs and result; TLC evaluates C16_InputsUnchanged and C16_NoAliasing on each event.
Part (b), crash points of retrieval: see harness/retrieval.py (fault enumeration at every sigtools->outside crossing,
     events validated by TLC against spec/Retrieval.tla).
"""
import random

from .. import algebra, alggen, tlc, absig
from ..algebra import Universe, run_trace_leg, event, flags

LEVEL = 'model_checking'
WANT = ['C16']


def sortapply_events(u, U):
    from sigtools import signatures

    def gen(shard, nshards):
        for i in range(len(U)):
            if i % nshards == shard:
                s = u.sig(i, 1)
                yield event(u, 'sortapply/%d' % i, 'sortapply', [s], lambda: signatures.apply_params(s, *signatures.sort_params(s)), pure=True,
                            case={'op': 'sortapply', 'ins': [U[i]]})
                yield event(u, 'sortapply-src/%d' % i, 'sortapply', [s], lambda: signatures.apply_params(s, *signatures.sort_params(s, sources=True)), pure=True,
                            case={'op': 'sortapply-src', 'ins': [U[i]]})
    return gen


def unary_events(u, U):
    from sigtools import signatures

    def gen(shard, nshards):
        for i in range(len(U)):
            if i % nshards == shard:
                s = u.sig(i, 1)
                yield event(u, 'merge1/%d' % i, 'merge', [s], lambda: signatures.merge(s), pure=True, case={'op': 'merge', 'ins': [U[i]]})
                yield event(u, 'embed1/%d' % i, 'embed', [s], lambda: signatures.embed(s), pure=True, case={'op': 'embed', 'ins': [U[i]]})
    return gen


def algebra_part(check, tier, seed, scratch):
    quick = tier == 'quick'
    U2 = tlc.export_universe(scratch, 'ab', ['args'], ['kwargs'], 2)
    u2 = Universe(U2)
    UO = [ps for ps in U2 if alggen.has_star(ps)]
    uo = Universe(UO)
    gens = [alggen.merge_pairs(u2, U2, pure=True, sample=0.5 if quick else None, seed=seed),
            alggen.embed_pairs(u2, U2, pure=True, sample_other=0.05 if quick else 1.0, seed=seed),
            alggen.merge_tuples(u2, U2, alggen.random_tuples(6000 if quick else 300000, len(U2), 3, seed), pure=True),
            alggen.embed_tuples(u2, U2, alggen.random_tuples(4000 if quick else 200000, len(U2), 3, seed + 3), pure=True),
            alggen.mask_events(u2, U2, hide='all', sample_hide=0.05 if quick else 1.0, seed=seed, pure=True),
            alggen.forwards_events(uo, UO, u2, U2, sample=0.005 if quick else 0.3, seed=seed, hide=True, pure=True),
            sortapply_events(u2, U2), unary_events(u2, U2)]
    run_trace_leg(check, scratch, 'purity', alggen.chain(*gens), WANT)
    check.cov['rule'] = ('algebra part: merge/embed pairs and triples, unary merge/embed, mask (all n, names, flags sampled), forwards, '
                         'sort_params+apply_params over the 220-signature universe; deep projection of every input before/after and identities '
                         'of all provenance containers; distinct by (inputs, flags)')


def run(check, tier, seed, scratch):
    algebra_part(check, tier, seed, scratch)
    try:
        from .. import retrieval
    except ImportError:
        check.note('crash-point part (b) not built yet')
    else:
        retrieval.crash_part(check, tier, seed, scratch)


def replay(check, case, scratch):
    from sigtools import signatures
    cu = algebra.CaseUniverse()
    c = case['case']
    if c.get('kind') == 'crash':
        from .. import retrieval
        return retrieval.replay_crash(check, case, scratch)

    def gen(shard, nshards):
        if shard != 0:
            return
        if c['op'].startswith('sortapply'):
            s = signatures.signature(absig.make_func(c['ins'][0], name='f1'))
            withsrc = c['op'] == 'sortapply-src'
            yield event(cu, case['tid'], 'sortapply', [s], lambda: signatures.apply_params(s, *signatures.sort_params(s, sources=withsrc)), pure=True, case=c)
        else:
            yield algebra.case_event(cu, case['tid'], c['op'], c['ins'], {k: v for k, v in (c.get('fl') or {}).items() if k in algebra.FLAGS0}, pure=True)
    run_trace_leg(check, scratch, 'replay', gen, WANT, nshards=1)
