"""C14 -- returned signatures are drop-in inspect.Signature objects.

(M)  spec/ObjModel.tla: the equality the property demands (plain data decide; two upgraded objects also agree on their upgraded
     annotations; an upgraded object equals its plain twin both ways; anything else is unequal) over a menagerie, with the invariants
     Reflexive, Symmetric, HashConsistent, PlainTwin (and, checked to FAIL as documentation, Transitive).
(T)  a menagerie of real objects per base signature -- the upgraded signature / parameters sigtools returns (plain retrieval, discovery,
     merge results), their plain inspect twins, variants differing in exactly one field (name, kind, default, annotation, upgraded
     annotation, return annotation, sources), and None / a string / an int / a tuple -- compared in ALL ordered pairs with == and != and
     hashed; str / bind / bind_partial on every call shape next to a plain inspect.Signature built from the same parameters; replace()
     with and without overrides.  TLC (Trace_Obj) evaluates totality, symmetry, != negates ==, reflexivity, agreement with ObjModel!SpecEq,
     hash consistency, hashable-iff-plain-is, drop-in str/bind, and what replace keeps / takes over.
"""
import inspect
import itertools
import json
import os
import random
import warnings

from .. import tlc, absig
from ..algebra import run_trace_leg

LEVEL = 'model_checking'


def model(check, scratch):
    d = scratch.sub('objmodel')
    cfg = tlc.write_cfg(os.path.join(d, 'ObjModel.cfg'), spec='Spec', constants=dict(Datas={1, 2, 3}, UAnns={1, 2}),
                        invariants=['Reflexive', 'Symmetric', 'HashConsistent', 'PlainTwin'])
    r = tlc.run_tlc('ObjModel', cfg, scratch, workers=4, timeout=600)
    check.add_model_run('ObjModel', r)
    if r.invariants_violated:
        check.error('ObjModel invariant violated: %s' % r.invariants_violated)
    cfg2 = tlc.write_cfg(os.path.join(d, 'ObjModelT.cfg'), spec='Spec', constants=dict(Datas={1, 2}, UAnns={1, 2}), invariants=['Transitive'])
    r2 = tlc.run_tlc('ObjModel', cfg2, scratch, workers=4, timeout=600)
    check.legs['ObjModel: Transitive (expected to fail: not claimed)'] = {'violated': bool(r2.invariants_violated)}
    if not r2.invariants_violated:
        check.error('ObjModel: Transitive unexpectedly holds -- the menagerie no longer contains the plain-twin triangle')


class Ids:
    def __init__(self):
        self.t = {}

    def __call__(self, key):
        return self.t.setdefault(key, len(self.t) + 1)


def plain_data(obj):
    """what inspect compares"""
    if isinstance(obj, inspect.Signature):
        return ('S', tuple(plain_data(p) for p in obj.parameters.values()), repr(obj.return_annotation))
    if isinstance(obj, inspect.Parameter):
        return ('P', obj.name, int(obj.kind), repr(obj.default), repr(obj.annotation))
    return ('O', repr(obj))


def uann_data(obj):
    from sigtools import signatures

    def sv(a):
        try:
            return repr(a.source_value())
        except Exception as e:  # noqa
            return 'ERR:' + type(e).__name__
    if isinstance(obj, signatures.UpgradedSignature):
        return ('S', tuple(sv(p.upgraded_annotation) for p in obj.parameters.values()), sv(obj.upgraded_return_annotation))
    if isinstance(obj, signatures.UpgradedParameter):
        return ('P', sv(obj.upgraded_annotation))
    return None


def abstract(obj, dids, uids, decided=True):
    from sigtools import signatures
    up = isinstance(obj, (signatures.UpgradedSignature, signatures.UpgradedParameter))
    fam = 'sig' if isinstance(obj, inspect.Signature) else 'param' if isinstance(obj, inspect.Parameter) else 'other'
    return {'fam': fam, 'up': up, 'data': dids(plain_data(obj)), 'uann': uids(uann_data(obj)) if up else 0, 'decided': decided}


def tri(thunk):
    try:
        with warnings.catch_warnings():
            warnings.simplefilter('ignore')
            r = thunk()
    except BaseException as e:  # noqa
        return 'raise:' + type(e).__name__
    if r is True:
        return 'True'
    if r is False:
        return 'False'
    return 'nonbool:' + type(r).__name__


def hsh(obj, hids):
    try:
        return {'ok': True, 'id': hids(hash(obj))}
    except Exception:  # noqa  (TypeError is the protocol; anything else escaping from hash() counts as not hashable just the same)
        return {'ok': False, 'id': 0}


def plain_twin(obj):
    from sigtools import signatures
    if isinstance(obj, signatures.UpgradedSignature):
        return inspect.Signature([plain_twin(p) for p in obj.parameters.values()], return_annotation=obj.return_annotation)
    if isinstance(obj, signatures.UpgradedParameter):
        return inspect.Parameter(obj.name, obj.kind, default=obj.default, annotation=obj.annotation)
    return obj


def menagerie(ps, rnd):
    """objects around one base signature: [(label, object, decided)]"""
    import sigtools
    from sigtools import signatures
    ps = [dict(p, an=(1 + i if i % 2 == 0 and p['k'] not in ('var', 'vkw') else 0), dv=(2 + i if p['d'] else 0)) for i, p in enumerate(ps)]
    f = absig.make_func(ps, name='f')
    f2 = absig.make_func(ps, name='f')                     # same data, another function
    ff = absig.make_func(ps, name='f', future=True)        # postponed annotations: plain data differ (strings), upgraded values agree
    up = signatures.signature(f)
    objs = [('up', up, True), ('up-again', signatures.signature(f), True), ('up-other-function', signatures.signature(f2), True),
            ('sigtools', sigtools.signature(f), True), ('plain', inspect.signature(f), True), ('plain-twin', plain_twin(up), True),
            ('up-future', signatures.signature(ff), True), ('merged', signatures.merge(up, signatures.signature(f2)), True)]
    # postponed annotations that cannot be evaluated (a name imported for type checking only): comparisons must still answer
    try:
        fu = absig.make_func([dict(p, an=(7 if p['an'] else 0)) for p in ps], name='f', future=True, extra_globals={'A7': None}, ret='Missing')
        del fu.__globals__['A7']
        objs += [('up-unresolvable', signatures.signature(fu), True), ('up-unresolvable-again', signatures.signature(fu), True)]
        # the same text where it CAN be evaluated: compared with the unresolvable one in both orders
        fr = absig.make_func([dict(p, an=(7 if p['an'] else 0)) for p in ps], name='f', future=True, extra_globals={'Missing': None}, ret='Missing')
        objs += [('up-resolvable-same-text', signatures.signature(fr), True)]
    except Exception:  # noqa
        pass
    # annotation VALUES with an unusual ==: NaN (not equal to itself), an object whose __eq__ answers with a string.  What data says about
    # two different objects is not decided here; that an object equals itself, and that the answer is a bool, is
    class Weird(object):
        __hash__ = object.__hash__

        def __eq__(self, other):
            return 'yes'
    for lab, name, val in (('nan', 'NANV', float('nan')), ('weird', 'WEIRD', Weird())):
        for fut in (False, True):
            fx = absig.make_func([dict(p, an=({'NANV': 94, 'WEIRD': 95}[name] if p['k'] not in ('var', 'vkw') else 0)) for p in ps], name='f', future=fut,
                                 extra_globals={name: val}, ret=name)
            sx = signatures.signature(fx)
            # ("solo": compared among themselves only -- with a value that claims to equal everything, what two DIFFERENT things compare to
            # and hash to is that value's business; plain inspect.Parameter.__eq__ hands such an answer through as well, so only signatures)
            grp = 'solo:%s%s:' % (lab, '-future' if fut else '')
            objs += [(grp + 'up', sx, False), (grp + 'up-again', signatures.signature(fx), False)]
            if sx.parameters and lab == 'nan':
                objs += [(grp + 'param', list(sx.parameters.values())[0], False)]
    # values that REFUSE comparison (no truth value, raising ==), are not equal to themselves, or are built anew by every evaluation of a
    # postponed annotation: two retrievals of the same function still compare equal, at signature and at parameter level, with a bool
    for mode in ('notruth', 'raises', 'never', 'anyeq'):
        g = {'A1': absig.Unusual(mode, an=1), 'D2': absig.Unusual(mode, dv=2), 'A2': absig.Unusual(mode, an=2)}
        fx = absig.make_func([dict(p, an=(1 if p['k'] not in ('var', 'vkw') else 0), dv=(2 if p['d'] else 0)) for p in ps], name='f', extra_globals=g, ret='A2')
        s1, s2 = signatures.signature(fx), signatures.signature(fx)
        grp = 'solo:unusual-%s:' % mode
        objs += [(grp + 'up', s1, False), (grp + 'up-again', s2, False)]
        if s1.parameters:
            objs += [(grp + 'param', list(s1.parameters.values())[0], False), (grp + 'param-again', list(s2.parameters.values())[0], False)]
    fm = absig.make_func([dict(p, an=(97 if p['k'] not in ('var', 'vkw') else 0)) for p in ps], name='f', future=True, extra_globals={'Marker': type('Marker', (), {})})
    objs += [('solo:fresh-object:up', signatures.signature(fm), False), ('solo:fresh-object:up-again', signatures.signature(fm), False)]
    params = list(up.parameters.values())
    if params:
        p0 = params[0]
        variants = [('name', p0.replace(name=p0.name + 'q')),
                    ('default', p0.replace(default=absig.DV[30]) if p0.kind not in (p0.VAR_POSITIONAL, p0.VAR_KEYWORD) else None),
                    ('annotation', p0.replace(annotation=absig.AN[30])),
                    ('upgraded-annotation', p0.replace(upgraded_annotation=signatures.UpgradedAnnotation.preevaluated(absig.AN[31]))),
                    ('kind', p0.replace(kind=p0.KEYWORD_ONLY, default=p0.empty) if p0.kind == p0.POSITIONAL_OR_KEYWORD and len(params) == 1 else None)]
        for lab, q in variants:
            if q is None:
                continue
            try:
                objs.append(('sig-' + lab, up.replace(parameters=[q] + params[1:]), True))
            except ValueError:
                pass
            objs.append(('param-' + lab, q, True))
        objs.append(('sig-sources', up.replace(sources={'+depths': {}}), False))
        objs.append(('param-sources', p0.replace(sources=[f2]), False))
        objs += [('param', p0, True), ('param-plain', plain_twin(p0), True), ('param-again', signatures.signature(f).parameters[p0.name], True)]
    objs.append(('sig-return', up.replace(return_annotation=absig.AN[32], upgraded_return_annotation=signatures.UpgradedAnnotation.preevaluated(absig.AN[32])), True))
    objs.append(('sig-upgraded-return', up.replace(upgraded_return_annotation=signatures.UpgradedAnnotation.preevaluated(absig.AN[33])), True))
    objs += [('None', None, True), ('str', str(up), True), ('int', 7, True), ('tuple', tuple(params), True)]
    return ps, f, up, objs


def events_for(tid, ps, rnd):
    from sigtools import signatures
    ps, f, up, objs = menagerie(ps, rnd)
    dids, uids, hids = Ids(), Ids(), Ids()
    absd = [abstract(o, dids, uids, dec) for _, o, dec in objs]
    for (ia, (la, a, _)), (ib, (lb, b, _)) in itertools.product(enumerate(objs), repeat=2):
        if (la.startswith('solo:') or lb.startswith('solo:')) and la.split(':')[:2] != lb.split(':')[:2]:
            continue
        yield {'tid': '%s/cmp-%s-%s' % (tid, la, lb), 'op': 'cmp', 'x': absd[ia], 'y': absd[ib], 'same_object': a is b,
               'twins': la.startswith('solo:') and la.replace('-again', '') == lb.replace('-again', ''),
               'eq_xy': tri(lambda: a == b), 'eq_yx': tri(lambda: b == a), 'ne_xy': tri(lambda: a != b), 'ne_yx': tri(lambda: b != a),
               'hx': hsh(a, hids), 'hy': hsh(b, hids), 'hx_plain_ok': hsh(plain_twin(a), Ids())['ok'],
               'case': {'ps': ps, 'x': la, 'y': lb}}
    # drop-in behaviour
    plain = plain_twin(up)
    calls = []
    names = [p['n'] for p in ps] + ['zz']
    npos = sum(1 for p in ps if p['k'] in ('po', 'pok'))
    for np_ in range(npos + 2):
        for k in range(len(names) + 1):
            for kw in itertools.combinations(names, k):
                def run(sig, meth):
                    try:
                        ba = getattr(sig, meth)(*range(np_), **{x: x for x in kw})
                        return {'ok': True, 'args': {a: (list(v) if isinstance(v, tuple) else v) for a, v in ba.arguments.items()}}
                    except TypeError:
                        return {'ok': False, 'args': {}}
                calls.append({'np': np_, 'kw': list(kw), 'up': run(up, 'bind'), 'plain': run(plain, 'bind'), 'pup': run(up, 'bind_partial'), 'pplain': run(plain, 'bind_partial')})
    yield {'tid': tid + '/drop', 'op': 'drop', 'ps': ps, 'str_up': str(up), 'str_plain': str(plain), 'calls': calls, 'case': {'ps': ps}}
    # replace
    params = list(up.parameters.values())
    newann = signatures.UpgradedAnnotation.preevaluated(absig.AN[34])
    r0 = up.replace()
    r1 = up.replace(parameters=params[1:])
    r2 = up.replace(sources={})
    r3 = up.replace(upgraded_return_annotation=newann, return_annotation=absig.AN[34])
    # a list mixing upgraded parameters with a plain inspect one: the upgraded ones must come through untouched
    extra = inspect.Parameter('zq', inspect.Parameter.KEYWORD_ONLY, default=1)
    cut = len(params) - 1 if params and params[-1].kind == params[-1].VAR_KEYWORD else len(params)
    with warnings.catch_warnings():
        warnings.simplefilter('ignore')
        r4 = up.replace(parameters=params[:cut] + [extra] + params[cut:])
    mixed_ok = all(q is p0_ for p0_, q in zip(params[:cut], list(r4.parameters.values())[:cut])) and \
        all(q.sources == p0_.sources and q.upgraded_annotation is p0_.upgraded_annotation and q._function is p0_._function
            for p0_, q in zip(params, [x for x in r4.parameters.values() if x.name != 'zq']))
    r5 = up.replace(parameters=(p for p in params))            # any iterable, as inspect.Signature.replace accepts
    upr = up.replace(return_annotation=absig.AN[35], upgraded_return_annotation=newann)
    r6 = upr.replace(return_annotation=upr.empty)              # the plain return annotation alone is taken away: the upgraded one is kept
    r7 = upr.replace(return_annotation=absig.AN[36])
    yield {'tid': tid + '/replace-sig', 'op': 'replace', 'type_kept': all(type(r) is signatures.UpgradedSignature for r in (r0, r1, r2, r3, r4, r5)),
           'kept': {'sources': r0.sources == up.sources and r1.sources == up.sources and r3.sources == up.sources,
                    'upgraded_return': r0.upgraded_return_annotation is up.upgraded_return_annotation and r1.upgraded_return_annotation is up.upgraded_return_annotation,
                    'upgraded_return_when_only_plain_return_overridden': r6.upgraded_return_annotation is newann and r7.upgraded_return_annotation is newann,
                    'parameters': list(r0.parameters.values()) == params and all(type(p) is signatures.UpgradedParameter for p in r1.parameters.values()),
                    'upgraded_parameters_in_mixed_list': mixed_ok},
           'taken': {'sources': r2.sources == {}, 'upgraded_return': r3.upgraded_return_annotation is newann, 'parameters': len(r1.parameters) == max(0, len(params) - 1),
                     'parameters_from_generator': list(r5.parameters) == list(up.parameters)},
           'case': {'ps': ps}}
    if params:
        p0 = params[0]
        q0 = p0.replace()
        q1 = p0.replace(name=p0.name + 'q')
        q2 = p0.replace(sources=[], source_depths={}, upgraded_annotation=newann, function=None)
        # every override ALONE: it is taken over and nothing else moves
        f2 = absig.make_func(ps, name='f')
        q3 = p0.replace(source_depths={f2: 5})
        q4 = p0.replace(sources=[f2])
        q5 = p0.replace(upgraded_annotation=newann)
        q6 = p0.replace(function=None)
        yield {'tid': tid + '/replace-param', 'op': 'replace', 'type_kept': all(type(q) is signatures.UpgradedParameter for q in (q0, q1, q2)),
               'kept': {'sources': q1.sources == p0.sources and q0.sources == p0.sources, 'source_depths': q1.source_depths == p0.source_depths,
                        'upgraded_annotation': q1.upgraded_annotation is p0.upgraded_annotation and q0.upgraded_annotation is p0.upgraded_annotation,
                        'function': q1._function is p0._function, 'rest': (q1.kind, q1.default, q1.annotation) == (p0.kind, p0.default, p0.annotation),
                        'sources_when_only_depths_overridden': q3.sources == p0.sources, 'depths_when_only_sources_overridden': q4.source_depths == p0.source_depths,
                        'provenance_when_only_annotation_overridden': (q5.sources, q5.source_depths) == (p0.sources, p0.source_depths) and q5._function is p0._function,
                        'all_when_only_function_overridden': (q6.sources, q6.source_depths) == (p0.sources, p0.source_depths) and q6.upgraded_annotation is p0.upgraded_annotation},
               'taken': {'sources': q2.sources == [], 'source_depths': q2.source_depths == {}, 'upgraded_annotation': q2.upgraded_annotation is newann,
                         'function': q2._function is None, 'name': q1.name == p0.name + 'q',
                         'source_depths_alone': q3.source_depths == {f2: 5}, 'sources_alone': q4.sources == [f2], 'upgraded_annotation_alone': q5.upgraded_annotation is newann,
                         'function_alone': q6._function is None},
               'case': {'ps': ps}}


def gen_for(U, n, seed):
    def gen(shard, nshards):
        rnd = random.Random(seed)
        idx = list(range(len(U)))
        rnd.shuffle(idx)
        for k, i in enumerate(idx[:n]):
            if k % nshards == shard:
                for e in events_for('obj/%d' % i, U[i], rnd):
                    yield e
    return gen


def describe(e, case):
    if e['op'] == 'cmp':
        return json.dumps([case['ps'], case['x'], case['y']], sort_keys=True), False, '%s == %s over def f%s -> %s / %s' % (
            case['x'], case['y'], absig.sig_str(case['ps']), e['eq_xy'], e['eq_yx'])
    return json.dumps([e['op'], case['ps'], e['tid'].split('/')[-1]], sort_keys=True), False, '%s on def f%s' % (e['tid'].split('/')[-1], absig.sig_str(case['ps']))


def classify(tid, clause, case):
    return clause


def run(check, tier, seed, scratch):
    quick = tier == 'quick'
    model(check, scratch)
    U = tlc.export_universe(scratch, 'ab', ['args'], ['kwargs'], 2)
    n = 60 if quick else len(U)
    run_trace_leg(check, scratch, 'menagerie', gen_for(U, n, seed), None, module='Trace_Obj', describe=describe, classify=classify)
    check.cov['exhaustive'] = False
    check.cov['rule'] = ('%d base signatures of the 220-signature universe (with annotations and distinct defaults); per base a menagerie of ~30 objects (upgraded signature via three '
                         'routes, from another function, with postponed annotations, a merge result, plain twins, one-field variants, parameters, None / str / int / tuple) compared in '
                         'all ordered pairs; str/bind/bind_partial on the complete call set next to the plain twin; replace() of signature and parameter with and without overrides' % n)
    check.assumptions += ['equality expectations are decided by construction (ObjModel!SpecEq) except for variants differing only in sources, where only totality / symmetry / negation are checked']


def replay(check, case, scratch):
    c = case['case']

    def gen(shard, nshards):
        if shard == 0:
            want = case['tid'].split('/')[-1]
            for e in events_for('/'.join(case['tid'].split('/')[:2]), c['ps'], random.Random(0)):
                if e['tid'].split('/')[-1] == want:
                    yield e
    run_trace_leg(check, scratch, 'replay', gen, None, nshards=1, module='Trace_Obj', describe=describe, classify=classify)
