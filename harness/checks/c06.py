"""C06 -- automatic discovery agrees with the equivalent explicit declaration.

Same program space, driver and trace specifications as C05 (harness/checks/c05.py); this check reports the C06_* clauses:
discovered parameters AND provenance = merge over the forwarding calls of specifiers.forwards(f, callee, n, *names, flags) for the
call shape actually written (both sides REAL results; the expected value never goes through the AST walker); the plain signature
when nothing usable remains / the declaration cannot be honoured / the merge is incompatible; and the result is the same in every
syntactic variant of the program (statement context, unrelated statements, local names, wrap-only decorators).
"""
from . import c05

LEVEL = 'model_checking'
MINE = ('C06',)


def run(check, tier, seed, scratch):
    c05.run_shared(check, tier, seed, scratch, MINE)


def replay(check, case, scratch):
    c05.replay(check, case, scratch, mine=MINE)
