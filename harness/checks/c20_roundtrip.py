def run_part(check, tier, seed, scratch):
    check.note('round-trip leg not built yet')


def replay(check, case, scratch):
    pass
