"""C20, textual round trip: s(text) / f(text) / func_from_sig reproduce every universe signature (names, kinds, defaults, annotations,
return annotation, eager or postponed) -- with the native spelling always, with the modifiers-based spellings (use_modifiers_annotate /
posoargs / kwoargs) for signatures without positional-only parameters up to the order of keyword-only parameters -- and the function made
by f returns its arguments keyed by parameter name.  The specification only states equalities here (Trace_PyBind!RoundV); the rendering
of a signature to text is the harness' (trusted, small)."""
import itertools
import json
import random

from .. import absig, tlc
from ..algebra import run_trace_leg

OPTS = [dict(use_modifiers_annotate=a, use_modifiers_posoargs=p, use_modifiers_kwoargs=k) for a in (False, True) for p in (False, True) for k in (False, True)]


def text_of(ps, literal=False):
    """the string form read_sig understands; literal: defaults are ints and annotations quoted strings (evaluable anywhere)"""
    out = []
    kinds = [p['k'] for p in ps]
    n_po = kinds.count('po')
    seen_star = False
    for i, p in enumerate(ps):
        k = p['k']
        if k == 'kwo' and not seen_star:
            out.append('*')
            seen_star = True
        t = p['n']
        if k == 'var':
            t = '*' + t
            seen_star = True
        elif k == 'vkw':
            t = '**' + t
        if p.get('an'):
            t += ":'A%d'" % p['an'] if literal else ':A%d' % p['an']
        if p['d']:
            t += '=%d' % p['dv'] if literal else '=D%d' % p['dv']
        out.append(t)
        if k == 'po' and i + 1 == n_po:
            out.append('/')
    return ', '.join(out)


def project(sig, literal):
    ps = []
    for p in sig.parameters.values():
        d = p.default is not p.empty
        try:
            av = p.upgraded_annotation.source_value()
        except Exception:  # noqa
            av = 'ERR'
        if literal:
            dv = p.default if d and isinstance(p.default, int) else (0 if not d else 99)
            an = int(av[1:]) if isinstance(av, str) and av[:1] == 'A' and av[1:].isdigit() else (0 if av is p.empty else 99)
        else:
            dv = absig.dv_id(p.default)
            an = absig.an_id(av)
        ps.append({'n': p.name, 'k': absig.KIND[p.kind], 'd': d, 'dv': dv, 'an': an})
    return ps


def ret_id(sig, literal):
    try:
        v = sig.upgraded_return_annotation.source_value()
    except Exception:  # noqa
        return 98
    if v is sig.empty:
        return 0
    if literal:
        return int(v[1:]) if isinstance(v, str) and v[:1] == 'A' and v[1:].isdigit() else 99
    return absig.an_id(v)


def with_meta(ps, rnd):
    out = []
    for i, p in enumerate(ps):
        q = dict(p)
        q['dv'] = 2 + i if q['d'] else 0
        q['an'] = (1 + i) if (q['k'] not in ('var', 'vkw') and rnd.random() < 0.5) else 0
        out.append(q)
    return out


def roundtrip_events(tid, ps0, rnd):
    from sigtools import support
    ps = with_meta(ps0, rnd)
    haspo = any(p['k'] == 'po' for p in ps)
    ret = rnd.choice([0, 7])
    for oi, opts in enumerate(OPTS):
        modspelling = any(opts.values())
        if modspelling and haspo:
            continue
        for future in (False, True):
            e = {'tid': '%s/rt-%d-%d' % (tid, oi, future), 'op': 'roundtrip', 'how': 's', 'want': ps, 'retwant': ret, 'upto_kwo_order': modspelling,
                 'case': {'ps0': ps0, 'ps': ps, 'opts': opts, 'future': future, 'ret': ret, 'how': 's'}}
            try:
                kw = dict(opts, globals=dict(absig.GLOBALS_BASE), future_features=('annotations',) if future else ())
                sig = support.s(text_of(ps), *(['A%d' % ret] if ret else []), **kw)
                e.update(tag='ok', got=project(sig, False), retgot=ret_id(sig, False))
            except Exception as ex:  # noqa
                e.update(tag='raise:' + type(ex).__name__, got=[], retgot=0)
            yield e
    # func_from_sig on the real signature object (literal defaults / annotations so that its string form can be evaluated anywhere)
    e = {'tid': tid + '/ffs', 'op': 'roundtrip', 'how': 'func_from_sig', 'want': ps, 'retwant': ret, 'upto_kwo_order': False,
         'case': {'ps0': ps0, 'ps': ps, 'opts': {}, 'future': False, 'ret': ret, 'how': 'func_from_sig'}}
    try:
        src = support.s(text_of(ps, literal=True), *(["'A%d'" % ret] if ret else []))
        import sigtools
        back = sigtools.signature(support.func_from_sig(src))
        e.update(tag='ok', got=project(back, True), retgot=ret_id(back, True))
    except Exception as ex:  # noqa
        e.update(tag='raise:' + type(ex).__name__, got=[], retgot=0)
    yield e
    # f(text)(*args, **kwargs) returns the arguments keyed by parameter name
    from .c20 import Val, enc, shapes_for
    try:
        fn = support.f(text_of([dict(p, an=0) for p in ps], literal=True))
        calls = []
        for np_, kw in shapes_for(ps):
            args = tuple(Val('P', j + 1) for j in range(np_))
            kwargs = {k: Val('K', k) for k in kw}
            try:
                r = fn(*args, **kwargs)
                m = {}
                for k, v in r.items():
                    p = next(q for q in ps if q['n'] == k)
                    m[k] = ['D', k] if (p['d'] and v == p['dv'] and not isinstance(v, Val)) else enc(v)
                calls.append({'np': np_, 'kw': kw, 'py': {'ok': True, 'map': m}})
            except TypeError:
                calls.append({'np': np_, 'kw': kw, 'py': {'ok': False}})
        yield {'tid': tid + '/fcall', 'op': 'fcall', 'ps': ps, 'calls': calls, 'case': {'ps0': ps0, 'ps': ps, 'how': 'fcall'}}
    except Exception as ex:  # noqa
        yield {'tid': tid + '/fcall', 'op': 'roundtrip', 'how': 'f', 'want': ps, 'retwant': 0, 'upto_kwo_order': False, 'tag': 'raise:' + type(ex).__name__, 'got': [], 'retgot': 0,
               'case': {'ps0': ps0, 'ps': ps, 'how': 'fcall'}}


# texts whose characters matter to the helpers' own templates: braces (str.format), a parameter spelled 'self', quotes
SPECIAL_TEXTS = ["a: '{'", "a: '}', b", "a: {}", "a: {0}, b=1", "a: '{0}', *, b: '{b}'=2", "self: 1", "self, *, a", "a, self=3", "self: 'x', *args, b: 2 = 5, **kwargs"]


def special_events():
    """the modifiers-based spellings must give what the native spelling gives (up to the order of keyword-only parameters), and the function
    made by f must take and return its arguments by name, for texts containing characters the code templates use themselves"""
    from sigtools import support
    ids = {}

    def proj(sig):
        out = []
        for p in sig.parameters.values():
            d = p.default is not p.empty
            try:
                av = repr(p.upgraded_annotation.source_value())
            except Exception as ex:  # noqa
                av = 'ERR:' + type(ex).__name__
            out.append({'n': p.name, 'k': absig.KIND[p.kind], 'd': d, 'dv': ids.setdefault(('d', repr(p.default)), len(ids) + 1) if d else 0,
                        'an': ids.setdefault(('a', av), len(ids) + 1) if p.annotation is not p.empty else 0})
        return out
    for ti, text in enumerate(SPECIAL_TEXTS):
        for oi, opts in enumerate(OPTS):
            if not any(opts.values()):
                continue
            for future in (False, True):
                kw = dict(future_features=('annotations',) if future else ())
                e = {'tid': 'special/%d-%d-%d' % (ti, oi, future), 'op': 'roundtrip', 'how': 's', 'retwant': 0, 'retgot': 0, 'upto_kwo_order': True,
                     'case': {'ps0': [], 'ps': [], 'text': text, 'opts': opts, 'future': future, 'how': 'special'}}
                try:
                    native = proj(support.s(text, **kw))
                except Exception:  # noqa  (the native spelling itself cannot read this text: nothing to compare with)
                    continue
                e['want'] = native
                try:
                    e.update(tag='ok', got=proj(support.s(text, **dict(kw, **opts))))
                except Exception as ex:  # noqa
                    e.update(tag='raise:' + type(ex).__name__, got=[])
                yield e
    # f(...)(<every parameter by keyword>) through the modifiers spellings
    for ti, text in enumerate(SPECIAL_TEXTS):
        for oi, opts in enumerate(OPTS):
            if opts['use_modifiers_annotate'] or not any(opts.values()):
                continue
            try:
                native = support.s(text)
            except Exception:  # noqa
                continue
            names = [p.name for p in native.parameters.values() if p.kind not in (p.VAR_POSITIONAL, p.VAR_KEYWORD)]
            e = {'tid': 'special-f/%d-%d' % (ti, oi), 'op': 'roundtrip', 'how': 'f', 'want': [], 'got': [], 'retwant': 0, 'retgot': 0, 'upto_kwo_order': True,
                 'case': {'ps0': [], 'ps': [], 'text': text, 'opts': opts, 'how': 'special-f'}}
            try:
                r = support.f(text, **opts)(**{n: n for n in names})
                e['tag'] = 'ok' if all(r.get(n) == n for n in names) else 'raise:WrongMapping'
            except Exception as ex:  # noqa
                e['tag'] = 'raise:' + type(ex).__name__
            yield e


def history_events():
    """s(text, ret) is a function of its arguments, whatever was built before: the same text with return annotations that compare EQUAL but are
    different objects (1, True, 1.0), built one after the other"""
    from sigtools import support
    for ti, text in enumerate(['a', 'a, *, b=1', '']):
        seq = [1, True, 1.0, 0, False, 0.0, True, 1]
        ok, why = True, ''
        for r in seq:
            try:
                got = support.s(text, r).return_annotation
            except Exception as ex:  # noqa
                ok, why = False, type(ex).__name__
                break
            if type(got) is not type(r) or got != r:
                ok, why = False, 'Stale'
                break
        yield {'tid': 'history/%d' % ti, 'op': 'roundtrip', 'how': 's', 'want': [], 'got': [], 'retwant': 0, 'retgot': 0, 'upto_kwo_order': False,
               'tag': 'ok' if ok else 'raise:' + why, 'case': {'ps0': [], 'ps': [], 'text': text, 'opts': {}, 'how': 'history'}}


def unusual_default_events():
    """bind_callsig / sort_callsigs with a default VALUE that has an unusual == (equal to everything, no truth value, raising): a parameter has a
    default or it has not, whatever the value says when compared"""
    from sigtools import support, specifiers
    for mode in ('anyeq', 'notruth', 'raises', 'never'):
        e = {'tid': 'unusual-default/' + mode, 'op': 'roundtrip', 'how': 'bind_callsig', 'want': [], 'got': [], 'retwant': 0, 'retgot': 0, 'upto_kwo_order': False,
             'case': {'ps0': [], 'ps': [], 'text': 'a, b=D', 'opts': {}, 'how': 'unusual-default', 'mode': mode}}
        try:
            D = absig.Unusual(mode)
            fn = support.f('a, b=D', globals={'D': D})
            sig = specifiers.signature(fn)
            got = support.bind_callsig(sig, (1,), {})
            valid, invalid = support.sort_callsigs(sig, [((1,), {}), ((), {})])
            ok = got.get('a') == 1 and got.get('b') is D and len(valid) == 1 and len(invalid) == 1
            e['tag'] = 'ok' if ok else 'raise:WrongAnswer'
        except Exception as ex:  # noqa
            e['tag'] = 'raise:' + type(ex).__name__
        yield e


def value_text_events():
    """func_from_sig on real signatures whose default VALUES print with a comma or with ' -> ' (known finding: the text is split naively)"""
    import inspect
    from sigtools import support
    import sigtools
    subjects = [('tuple-default', lambda a=(1, 2): 0), ('arrow-string-default', lambda a='x -> y', b=1: 0), ('dict-default', lambda a={'k': 1, 'l': 2}: 0),
                ('plain', lambda a=1, b='x': 0)]
    for lab, fn in subjects:
        src = inspect.signature(fn)
        e = {'tid': 'valuetext/' + lab, 'op': 'roundtrip', 'how': 'func_from_sig', 'want': [], 'got': [], 'retwant': 0, 'retgot': 0, 'upto_kwo_order': False,
             'case': {'ps0': [], 'ps': [], 'text': str(src), 'opts': {}, 'how': 'valuetext', 'label': lab}}
        try:
            back = sigtools.signature(support.func_from_sig(src))
            same = [(p.name, p.kind, repr(p.default)) for p in back.parameters.values()] == [(p.name, p.kind, repr(p.default)) for p in src.parameters.values()]
            e['tag'] = 'ok' if same else 'raise:Differs'
        except Exception as ex:  # noqa
            e['tag'] = 'raise:' + type(ex).__name__
        yield e


def gen_for(U, n, seed):
    def gen(shard, nshards):
        rnd = random.Random(seed)
        idx = list(range(len(U)))
        rnd.shuffle(idx)
        for k, i in enumerate(idx[:n]):
            r2 = random.Random(seed * 1000003 + i)
            if k % nshards == shard:
                for e in roundtrip_events('rt/%d' % i, U[i], r2):
                    yield e
        if shard == 0:
            for e in special_events():
                yield e
            for e in value_text_events():
                yield e
            for e in history_events():
                yield e
            for e in unusual_default_events():
                yield e
    return gen


def describe(e, case):
    key = json.dumps([case.get('ps'), case.get('opts'), case.get('future'), case.get('how')], sort_keys=True)
    if 'text' in case:
        return json.dumps([case['text'], case.get('opts'), case.get('future'), case.get('how')], sort_keys=True), False, '%s of (%s) %s -> %s' % (
            case.get('how'), case['text'], {k: v for k, v in (case.get('opts') or {}).items() if v}, e.get('tag'))
    return key, False, '%s of (%s) %s -> %s' % (case.get('how'), text_of(case['ps']), {k: v for k, v in (case.get('opts') or {}).items() if v}, e.get('tag', 'calls'))


def classify(tid, clause, case):
    # known finding: read_sig splits the parameter text on every comma and func_from_sig cuts at the last ' -> ': values whose text contains them
    if clause == 'C20_RoundTripRaised' and case and case.get('how') == 'valuetext' and case.get('label') in ('tuple-default', 'arrow-string-default', 'dict-default'):
        return 'read-sig-splits-inside-values'
    return clause


def run_part(check, tier, seed, scratch):
    quick = tier == 'quick'
    U = tlc.export_universe(scratch, 'abc', ['args'], ['kwargs'], 3)
    n = 260 if quick else len(U)
    run_trace_leg(check, scratch, 'roundtrip', gen_for(U, n, seed), None, module='Trace_PyBind', describe=describe, classify=classify)
    check.cov['roundtrip_signatures'] = n


def replay(check, case, scratch):
    c = case['case']

    def gen(shard, nshards):
        if shard == 0:
            want = case['tid'].split('/')[-1]
            seed_i = int(case['tid'].split('/')[1])
            for e in roundtrip_events('/'.join(case['tid'].split('/')[:2]), c['ps0'], random.Random(case.get('seed', 0) * 1000003 + seed_i)):
                if e['tid'].split('/')[-1] == want:
                    yield e
    run_trace_leg(check, scratch, 'replay', gen, None, nshards=1, module='Trace_PyBind', describe=describe)
