"""C09 -- merge loses nothing when inputs agree on names; identity and fold laws.

(M)  SigMachine Op = merge with C09_Exact / C09_RaiseIff as invariants (exhaustive pairs; triples simulated).
(T)  real merge on all pairs: exactness and raise-iff evaluated by TLC over the complete call set;
     law events (both sides REAL results, TLC checks equality under the projection):
       merge(s) = s, merge(s, s) = s, (*args, **kwargs) neutral on either side up to star names,
       apply_params(s, *sort_params(s)) = s, merge(a, b, c) = merge(merge(a, b), c) incl. provenance on
       role-consistent triples (the precondition is evaluated by TLC on the logged inputs).
"""
import random

from .. import algebra, alggen, tlc, absig
from ..algebra import Universe, run_trace_leg, model_leg, law_event

LEVEL = 'model_checking'
WANT = ['C09', 'LAW', 'DRIFT']

STARS = [{'n': 'args', 'k': 'var', 'd': False, 'dv': 0, 'an': 0}, {'n': 'kwargs', 'k': 'vkw', 'd': False, 'dv': 0, 'an': 0}]
STARS2 = [{'n': 'p', 'k': 'var', 'd': False, 'dv': 0, 'an': 0}, {'n': 'k', 'k': 'vkw', 'd': False, 'dv': 0, 'an': 0}]


def law_gen(u, U, triples, seed, unary=True):
    from sigtools import signatures

    def gen(shard, nshards):
        bare = [signatures.signature(absig.make_func(STARS, name='f9')), signatures.signature(absig.make_func(STARS2, name='f9'))]
        for i in range(len(U) if unary else 0):
            if i % nshards != shard:
                continue
            s = u.sig(i, 1)
            case = {'op': 'law', 'ins': [U[i]]}
            yield law_event(u, 'unary/%d' % i, 'C09_MergeUnary', [lambda: signatures.merge(s), lambda: s], cmp='all', case=case)
            yield law_event(u, 'idem/%d' % i, 'C09_MergeIdempotent', [lambda: signatures.merge(s, s), lambda: s], cmp='ps', case=case)
            for b, bs in enumerate(bare):
                yield law_event(u, 'neutralR/%d-%d' % (i, b), 'C09_NeutralRight', [lambda: signatures.merge(s, bs), lambda: s], cmp='starnames', case=case)
                yield law_event(u, 'neutralL/%d-%d' % (i, b), 'C09_NeutralLeft', [lambda: signatures.merge(bs, s), lambda: s], cmp='starnames', case=case)
            yield law_event(u, 'sortapply/%d' % i, 'C09_SortApplyRoundTrip',
                            [lambda: signatures.apply_params(s, *signatures.sort_params(s)), lambda: s], cmp='ps', case=case)
        for t, (i, j, k) in enumerate(triples):
            if t % nshards != shard:
                continue
            a, b, c = u.sig(i, 1), u.sig(j, 2), u.sig(k, 3)
            yield law_event(u, 'assoc/%d-%d-%d' % (i, j, k), 'C09_FoldLaw',
                            [lambda: signatures.merge(a, b, c), lambda: signatures.merge(signatures.merge(a, b), c)],
                            cmp='all', pre='roleconsistent', ins=[a, b, c], case={'op': 'merge', 'ins': [U[i], U[j], U[k]]})
    return gen


def role_consistent(pss):
    def role(ps, n):
        pos = 0
        for p in ps:
            if p['k'] in ('po', 'pok'):
                pos += 1
            if p['n'] == n:
                return (p['k'], pos if p['k'] in ('po', 'pok') else 0)
    for a in range(len(pss)):
        for b in range(a + 1, len(pss)):
            for n in {p['n'] for p in pss[a]} & {p['n'] for p in pss[b]}:
                if role(pss[a], n) != role(pss[b], n):
                    return False
    return True


def rc_triples(U, n, seed):
    """seeded random triples, pre-filtered to role-consistent ones (the filter only saves time: TLC re-evaluates
    the precondition on the logged inputs)"""
    rnd = random.Random(seed)
    out = []
    tries = 0
    while len(out) < n and tries < 200 * n:
        tries += 1
        t = (rnd.randrange(len(U)), rnd.randrange(len(U)), rnd.randrange(len(U)))
        if role_consistent([U[x] for x in t]):
            out.append(t)
    return out


def run(check, tier, seed, scratch):
    quick = tier == 'quick'
    U2 = tlc.export_universe(scratch, 'ab', ['args'], ['kwargs'], 2)
    U3 = tlc.export_universe(scratch, 'abc', ['args'], ['kwargs'], 2)
    UP = U2 if quick else tlc.export_universe(scratch, 'abc', ['args'], ['kwargs'], 3)
    base = dict(StarV={'args'}, StarK={'kwargs'}, Op='merge', MaxN=0, MaxNamesLen=0, HideFlags=False)
    cex = model_leg(check, scratch, 'merge-pairs-U220', dict(base, Names=set('ab'), MaxNamed=2, Arity=2), ['C09'])
    if not quick:
        cex += model_leg(check, scratch, 'merge-pairs-U580', dict(base, Names=set('abc'), MaxNamed=2, Arity=2), ['C09'])
    check.cov['model_counterexamples'] = len(cex)
    up, u3, cu = Universe(UP), Universe(U3), algebra.CaseUniverse()
    triples = rc_triples(U3, 6000 if quick else 150000, seed)
    # EVERY role-consistent triple over one name (the n-ary fold keeps state between its steps: the same name met a second and a third time)
    U1 = tlc.export_universe(scratch, 'a', ['args'], ['kwargs'], 1)
    all1 = [(i, j, k) for i in range(len(U1)) for j in range(len(U1)) for k in range(len(U1)) if role_consistent([U1[i], U1[j], U1[k]])]
    u1 = Universe(U1)
    check.cov['one_name_triples'] = len(all1)
    # the unary / neutral-element laws also for signatures whose STAR parameters carry annotations (neutral means: nothing about s changes)
    UA = [[dict(p, an=(1 if p['k'] == 'var' else 2 if p['k'] == 'vkw' else p['an'])) for p in ps] for ps in U2 if alggen.has_star(ps)]
    gen = alggen.chain(alggen.merge_pairs(up, UP), law_gen(u3, U3, triples, seed), law_gen(u1, U1, all1, seed, unary=False), alggen.merge_tuples(u1, U1, all1, tag='merge3-one-name'),
                       law_gen(Universe(UA), UA, [], seed),
                       alggen.cex_events(cu, 'merge', cex))
    run_trace_leg(check, scratch, 'merge+laws', gen, WANT)
    check.cov['exhaustive'] = True
    check.cov['rule'] = ('every ordered pair of the %d-signature universe (exactness, raise-iff; complete call set); the unary, '
                         'idempotence, neutral-element (two star-name spellings, both sides) and sort/apply laws on every signature of '
                         'the 580-signature universe; the fold law on %d seeded role-consistent triples; distinct by (inputs, flags), '
                         'non-trivial = some input has a parameter' % (len(UP), len(triples)))
    check.assumptions += ['bound: <=%d named parameters per signature' % (2 if quick else 3), 'PyBind!Accepts validated by C20']


def replay(check, case, scratch):
    from sigtools import signatures
    cu = algebra.CaseUniverse()
    c = case['case']

    def gen(shard, nshards):
        if shard != 0:
            return
        if case['clause'] == 'C09_FoldLaw':
            fs = [absig.make_func(ps, name='f%d' % (k + 1)) for k, ps in enumerate(c['ins'])]
            a, b, cc = [signatures.signature(f) for f in fs]
            yield law_event(cu, case['tid'], 'C09_FoldLaw', [lambda: signatures.merge(a, b, cc), lambda: signatures.merge(signatures.merge(a, b), cc)],
                            cmp='all', pre='roleconsistent', ins=[a, b, cc], case=c)
        else:
            yield algebra.case_event(cu, case['tid'], 'merge', c['ins'])
    run_trace_leg(check, scratch, 'replay', gen, WANT, nshards=1)
