"""C05 -- automatic discovery never reports a signature the function cannot honour   (C06 shares this driver)

(M)  spec/AutoFwd.tla: a state machine whose behaviours are programs (statement alphabet: forwarding calls in 6 placements x
     4 x 4 star-argument forms, 50 taint statements -- rebind / augmented assignment / for target / with-as / walrus / del /
     hand-over / membership test / item set / item delete / mutating and read-only method, directly in the body, in a branch
     not taken, in nested functions called at once / at the end / never, nonlocal rebinding -- and decoys), with the walker's
     namespace machine transcribed from CallListerVisitor next to a runtime ghost.  TLC explores all programs up to MaxStmts
     exhaustively; invariants TypeOK, Monotone; C05_Model (no call reported as forwarding a star ever runs with that star not
     pristine) is evaluated on every finished behaviour and the unsound ones are counted and replayed like all others.
(S->C, T)  every program is rendered to Python (3 syntactic variants), analysed by the REAL CallListerVisitor, retrieved through
     sigtools.signature, compared with the explicit declaration computed by the public algebra, executed on the call set, and its
     runtime ghost observed.  TLC (Trace_AutoFwd) re-runs the walker model on the program and evaluates the clauses.
(grid)  the one-call grid: outer x callee from the signature universe x written call shape x callee resolution route (global,
     closure, attribute chain, self.method, parameter bound by functools.partial, wrap-only decorators), executed on the complete
     call set (shared with C04's program driver, Trace_Exec).
"""
import itertools
import json
import os
import random

from .. import algebra, alggen, tlc, absig, progs, autofwd
from ..algebra import run_trace_leg
from . import c04

LEVEL = 'model_checking'
AUTO_PLACEMENTS = ['auto', 'auto_closure', 'auto_attr', 'auto_attr2', 'auto_method', 'auto_param', 'auto_param_method', 'auto_param_nested', 'auto_partial_nothing', 'auto_class_call', 'auto_relay', 'auto_first_unresolvable', 'auto_first_incompatible', 'auto_loop_taint_after', 'auto_compr_shadow', 'auto_nested_def_own_stars', 'auto_nested_async_own_stars', 'auto_wraps', 'auto_deco_noop', 'auto_param_default', 'auto_hint', 'auto_hint_partial', 'auto_carrier1', 'auto_carrier2']
MINE = ('C05', 'C07')        # clause prefixes this check reports; C06_* clauses of the shared events belong to check C06


def model_run(check, scratch, maxstmts, export=False, timeout=1800):
    d = scratch.sub('autofwd-model')
    cfg = tlc.write_cfg(os.path.join(d, 'AutoFwd.cfg'), spec='Spec', constants={'MaxStmts': maxstmts, 'Fixed': True},
                        invariants=['TypeOK'], properties=['Monotone'], constraints=['Export'] if export else [])
    r = tlc.run_tlc('AutoFwd', cfg, scratch, workers=1 if export else tlc.NCPU, timeout=timeout, xmx='8g')
    check.add_model_run('AutoFwd(MaxStmts=%d)' % maxstmts, r)
    stmts = [json.loads('|'.join(f)) for f in r.lines('STMTS')]
    if not stmts:
        raise tlc.MachineryError('AutoFwd did not print its alphabet:\n' + r.out[-1500:])
    return r, stmts[0]


def unsound_count(check, scratch, maxstmts):
    """the model-level verdict: how many finished behaviours violate C05_Model (-continue lists them all)"""
    d = scratch.sub('autofwd-sound')
    cfg = tlc.write_cfg(os.path.join(d, 'AutoFwd.cfg'), spec='Spec', constants={'MaxStmts': maxstmts, 'Fixed': True},
                        invariants=['C05_Model'])
    r = tlc.run_tlc('AutoFwd', cfg, scratch, workers=tlc.NCPU, timeout=1800, xmx='8g', cont=True)
    n = len(r.invariants_violated)
    check.legs['AutoFwd C05_Model (MaxStmts=%d)' % maxstmts] = {'distinct': r.distinct, 'behaviours_violating_C05_Model': n}
    check.cov['states'] += r.distinct
    check.cov['transitions'] += r.generated
    return n


def programs(stmts, maxlen, sample, seed):
    """all programs up to length 2; seeded sample of the longer ones"""
    rnd = random.Random(seed)
    for n in range(1, min(maxlen, 2) + 1):
        for prog in itertools.product(stmts, repeat=n):
            yield list(prog)
    for n in range(3, maxlen + 1):
        for _ in range(sample):
            yield [rnd.choice(stmts) for _ in range(n)]


def interesting(prog):
    return any(s['k'] == 'fwd' for s in prog)


def _s(k, ctx, sa='-', sk='-', tgt='-', how='-', arg='-'):
    return {'k': k, 'ctx': ctx, 'sa': sa, 'sk': sk, 'tgt': tgt, 'how': how, 'arg': arg}


# the listed known findings, always exercised (whatever the sampling of the tier)
KNOWN_PROGRAMS = [
    # D25 hidden-call-merged-with-precise-call: w1(**kwargs); 't' in kwargs; w2(**kwargs)
    [_s('fwd', 'top', 'none', 'own'), _s('taint', 'top', tgt='K', how='contains'), _s('fwd', 'top', 'none', 'own')],
]


# programs run in every tier whatever the sampling: shapes that seeded changes showed to be easy to miss
ALWAYS_PROGRAMS = [
    # the star captured as the default of a nested parameter of the SAME name, then forwarded
    ([_s('taint', 'top', tgt='K', how='default_capture'), _s('fwd', 'top', 'none', 'own')], [{'tkey': 't', 'same': True}, {'w': 1, 'n': 0, 'names': []}]),
    ([_s('taint', 'top', tgt='A', how='default_capture'), _s('fwd', 'top', 'own', 'none')], [{'tkey': 't', 'same': True}, {'w': 1, 'n': 0, 'names': []}]),
    ([_s('taint', 'top', tgt='K', how='default_capture'), _s('fwd', 'top', 'own', 'own')], [{'tkey': 't', 'same': False}, {'w': 1, 'n': 0, 'names': []}]),
    # **kwargs handed over BY KEYWORD inside a nested function that runs before the forwarding call
    ([_s('taint', 'nested_now', tgt='K', how='handover'), _s('fwd', 'top', 'own', 'own')], [{'tkey': 't', 'same': True}, {'w': 1, 'n': 0, 'names': []}]),
    ([_s('taint', 'nested_now', tgt='K', how='handover_expr'), _s('fwd', 'top', 'none', 'own')], [{'tkey': 't', 'same': True}, {'w': 1, 'n': 0, 'names': []}]),
    # *args merely READ inside a nested function (a tuple cannot be changed by the code it is handed to): the call still forwards it
    ([_s('taint', 'nested_now', tgt='A', how='handover'), _s('fwd', 'top', 'own', 'own')], [{'tkey': 't', 'same': False}, {'w': 1, 'n': 0, 'names': []}]),
    ([_s('taint', 'nested_after', tgt='A', how='handover_expr'), _s('fwd', 'top', 'own', 'none')], [{'tkey': 't', 'same': False}, {'w': 1, 'n': 0, 'names': []}]),
]


def prog_gen(stmts, maxlen, sample, seed, frac=1.0, only=None):
    def gen(shard, nshards):
        rnd = random.Random(seed)
        k = 0
        if shard == 0 and only is None:
            for j, prog in enumerate(KNOWN_PROGRAMS):
                ws = [autofwd.callee_shapes(nm)[0] for nm in autofwd.CALLEE_NAMES]
                choice = [{'w': 1, 'n': 0, 'names': []}, {'tkey': 't'}, {'w': 2, 'n': 0, 'names': []}]
                yield autofwd.program_event('af/known-%d' % j, prog, autofwd.OUTERS[1], ws, choice)
            for j, (prog, choice) in enumerate(ALWAYS_PROGRAMS):
                for oi in range(len(autofwd.OUTERS)):
                    ws = [autofwd.callee_shapes(nm)[0] for nm in autofwd.CALLEE_NAMES]
                    yield autofwd.program_event('af/always-%d-%d' % (j, oi), prog, autofwd.OUTERS[oi], ws, choice)
        for prog in programs(stmts, maxlen, sample, seed):
            if not interesting(prog):
                continue
            r = rnd.random()
            same = rnd.random() < 0.5
            oi = rnd.randrange(len(autofwd.OUTERS))
            shape = rnd.randrange(3)
            crnd = random.Random(rnd.random())
            if r >= frac:
                continue
            if k % nshards == shard and (only is None or k in only):
                taintfree = all(s['k'] != 'taint' and s.get('arg', '-') == '-' for s in prog)
                full = all(s['sa'] == 'own' and s['sk'] == 'own' for s in prog if s['k'] == 'fwd')
                # required callee parameters only where the caller can always supply them: no taints, every call forwards both stars
                sh = shape if (taintfree and full) else shape % 2
                ws = [autofwd.callee_shapes(nm)[sh] for nm in autofwd.CALLEE_NAMES]
                choice = autofwd.choose(prog, crnd, 2, same, relay=crnd.random() < 0.25)
                yield autofwd.program_event('af/%d' % k, prog, autofwd.OUTERS[oi], ws, choice)
            k += 1
    return gen


def describe(e, case):
    if e['op'] == 'fwdprog':
        return c04.describe(e, case)
    key = json.dumps([e['prog'], e['o'], e['ws'], e['wof'], e['nn'], e['names']], sort_keys=True)
    rep = absig.sig_str(e['reported']['ps']) if e['reported']['tag'] == 'sig' else e['reported']['tag']
    text = '%d statements %s -> reported %s (plain %s); %d executions observed, %d shapes raised' % (
        len(e['prog']), [(s['k'], s['ctx'], s['sa'] + '/' + s['sk'] if s['k'] == 'fwd' else s['tgt'] + ':' + s['how']) for s in e['prog']], rep,
        absig.sig_str(e['plain']['ps']) if e['plain']['tag'] == 'sig' else e['plain']['tag'], len(e['obs_execs']), len(e['bad_outer']) + len(e['bad_inner']))
    return key, False, text


def taint_key(case):
    """structural key of a failing program: the taint statements that precede an executed forwarding call"""
    if not isinstance(case, dict) or 'prog' not in case:
        return None
    forms = sorted({'%s:%s:%s' % (s['ctx'], s['tgt'], s['how']) for s in case['prog'] if s['k'] == 'taint'})
    return forms


def make_classify(mine):
    def classify(tid, clause, case):
        # the one-call grid is validated by Trace_Exec, whose execution-soundness clause carries C04's name: for a DISCOVERED signature it is C05's
        if clause == 'C04_AcceptedCallRaisesTypeError' and 'C05' in mine and isinstance(case, dict) and str(case.get('placement', '')).startswith('auto'):
            # known finding: the walker reads the body once, top to bottom, and gives comprehensions no scope of their own
            if case.get('placement') in ('auto_loop_taint_after', 'auto_compr_shadow'):
                return 'star-replaced-between-executions-of-the-call'
            return 'C05_AcceptedCallRaisesTypeError(grid)'
        if not clause.startswith(mine) and not clause.startswith('HARNESS'):
            return 'IGNORE'
        if clause == 'C05_AcceptedCallRaisesTypeError_HiddenCallMerged':
            return 'hidden-call-merged-with-precise-call'
        return clause
    return classify


def run_shared(check, tier, seed, scratch, mine):
    quick = tier == 'quick'
    r, stmts = model_run(check, scratch, 2 if quick else 3)
    nun = unsound_count(check, scratch, 2)
    check.cov['model_unsound_behaviours_len<=2'] = nun
    classify = make_classify(mine)
    # statement-level programs
    res = run_trace_leg(check, scratch, 'programs', prog_gen(stmts, 3 if quick else 4, 8000 if quick else 120000, seed, frac=0.15 if quick else 1.0),
                        None, module='Trace_AutoFwd', describe=describe, classify=classify)
    # one-call grid over the signature universe and the resolution routes
    U2 = tlc.export_universe(scratch, 'ab', ['args'], ['kwargs'], 2)
    UO = [ps for ps in U2 if alggen.has_star(ps)]
    UI = [c04.rename(ps, {'a': 'x', 'b': 'y'}) for ps in U2]
    ngrid = 12000 if quick else 300000

    def grid(shard, nshards):
        rnd = random.Random(seed + 5)
        for k in range(ngrid):
            a, b = rnd.randrange(len(UO)), rnd.randrange(len(UI))
            fl = c04.written_flags(UO[a], UI[b], rnd)
            fl = dict(fl, partial=False) if rnd.random() < 0.9 else fl
            placement = AUTO_PLACEMENTS[k % len(AUTO_PLACEMENTS)]
            if placement == 'auto_relay':
                fl = dict(fl, partial=rnd.random() < 0.4)
            if k % nshards == shard:
                yield c04.prog_event('grid/%d-%d-%d-%s' % (k, a, b, placement), UO[a], UI[b], fl, placement)
    run_trace_leg(check, scratch, 'one-call-grid', grid, None, module='Trace_Exec', describe=describe, classify=classify)
    check.failures = [f for f in check.failures if f['key'] != 'IGNORE']
    check.cov['exhaustive'] = False
    check.cov['statement_alphabet'] = len(stmts)
    check.cov['rule'] = ('statement-level: all programs of <= 2 statements over the %d-statement alphabet exported by TLC (%s), each with a seeded choice of '
                         'outer (3), callee shapes (3), same/distinct callees, n, written names; %s; one-call grid: %d seeded (outer in the %d star-bearing '
                         'signatures, callee in the 220-signature universe, written call, 13 resolution routes), executed on the complete call set; '
                         'distinct by (program, signatures, choices)' % (
                             len(stmts), 'a seeded 15% in the quick tier' if quick else 'all', '15% of 8000 seeded programs of 3 statements' if quick else '120000 seeded programs each of 3 and 4 statements',
                             ngrid, len(UO)))
    check.assumptions += [
        'taint statements use benign values (a rebinding supplies () / {}, mutations touch an optional keyword-only callee parameter): with an adversarial '
        'value no reported signature could be honoured, so such programs say nothing about sigtools',
        'statement-level call sets use every positional count and keyword subsets of size <= 2 (complete on the one-call grid)',
        '"handed to other code" is part of the ghost for **kwargs only (a tuple cannot be modified by the code it is handed to)',
    ]


def run(check, tier, seed, scratch):
    run_shared(check, tier, seed, scratch, MINE)


def replay(check, case, scratch, mine=MINE):
    c = case['case']
    classify = make_classify(mine)
    if 'prog' in c:
        def gen(shard, nshards):
            if shard == 0:
                yield autofwd.program_event(case['tid'], c['prog'], c['o'], c['ws'], c['choice'])
        run_trace_leg(check, scratch, 'replay', gen, None, nshards=1, module='Trace_AutoFwd', describe=describe, classify=classify)
    else:
        def gen(shard, nshards):
            if shard == 0:
                yield c04.prog_event(case['tid'], c['o'], c['i'], c['fl'], c['placement'])
        run_trace_leg(check, scratch, 'replay', gen, None, nshards=1, module='Trace_Exec', describe=describe, classify=classify)
    check.failures = [f for f in check.failures if f['key'] != 'IGNORE']
