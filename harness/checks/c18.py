"""C18 -- decorator application order and repeated use do not change the result.

Order part.  (M) spec/Modifiers.tla invariant OrderIndependent and spec/ModOrder.tla: steps ApplyKwo / ApplyPoso / ApplyAuto accumulate
     name sets exactly as _merge_other / _autokwoargs do; invariant: the state reached is a function of the SET of steps applied, whatever
     admissible order was taken.  (T) for every base function and set of modifier applications (kwoargs, posoargs, autokwoargs, annotate),
     ALL permutations are really applied; TLC (Trace_Order) checks that every fully admissible order advertises the same signature on
     every route and behaves the same on the complete call set, and that an annotate applied after a modifier is advertised.
History part.  (M) spec/ObjHist.tla: caller references, the weak-keyed descriptor cache and reclamation; invariants Reclaimed /
     NoStaleEntry for the caching modes "weak" and "none" (the pinned code's "strong" mode violates Reclaimed in two steps: bind, drop).
     (S->C, T) every history of MaxOps operations TLC generates is executed on fresh classes for 8 kinds of descriptor (kwoargs / posoargs /
     autokwoargs methods, forwards_to_method with and without emulate, wrappers.decorator and wrapper_decorator methods, a plain
     forwarding method), instances of the class and of a subclass; each result is compared with a fresh twin, calls must reach the
     right instance, dropped instances are observed through weak references; TLC (Trace_Hist) walks the history with ObjHist's state.
"""
import itertools
import json
import os
import random

from .. import tlc, hist, modif, absig
from ..algebra import run_trace_leg

LEVEL = 'model_checking'


def objhist_model(check, scratch, mode, maxops, export=False):
    d = scratch.sub('objhist')
    cfg = tlc.write_cfg(os.path.join(d, 'ObjHist.cfg'), spec='Spec', constants=dict(Inst={'i1', 'i2'}, MaxOps=maxops, MaxGot=2, CacheHoldsValue=mode),
                        invariants=['TypeOK', 'Reclaimed', 'NoStaleEntry'], constraints=['Export'] if export else [])
    r = tlc.run_tlc('ObjHist', cfg, scratch, workers=1 if export else tlc.NCPU, timeout=1800, xmx='6g', coverage=True)
    check.add_model_run('ObjHist(cache=%s, MaxOps=%d)' % (mode, maxops), r)
    if r.invariants_violated:
        check.error('ObjHist(%s): invariant violated %s' % (mode, r.invariants_violated))
    return [json.loads('|'.join(f))['hist'] for f in r.lines('BEH')]


def hist_gen(hists, seed, frac):
    def gen(shard, nshards):
        rnd = random.Random(seed)
        k = 0
        for h in hists:
            for kind in hist.KINDS:
                take = rnd.random() < frac
                if take and k % nshards == shard:
                    yield hist.history_event('hist/%d-%s' % (k, kind), kind, h)
                if take:
                    k += 1
    return gen


# ------------------------------------------------------------------------------------------------ order part
def make_decorator(s):
    from sigtools import modifiers
    if s['kind'] == 'kwo':
        return modifiers.kwoargs(*s['names'])
    if s['kind'] == 'po':
        return modifiers.posoargs(*s['names'])
    if s['kind'] == 'start':
        return modifiers.kwoargs(start=s['names'][0])
    if s['kind'] == 'end':
        return modifiers.posoargs(end=s['names'][0])
    if s['kind'] == 'auto':
        return modifiers.autokwoargs(exceptions=s['names']) if s['names'] else modifiers.autokwoargs
    return modifiers.annotate(**{n: absig.AN[9] for n in s['names']})


def order_event(tid, base0, steps, bound=False, shared=False):
    """steps: list of dicts (kind: 'kwo'|'po'|'auto'|'ann'|'start'|'end', names).  Applies every permutation; bound: the function is a
    method (self first, part of every positional-only selection) and what is compared is what an instance's bound method advertises and does."""
    from sigtools import modifiers
    base = modif.with_meta(([modif.SELF] if bound else []) + list(base0))
    if bound and base0 and base0[0]['k'] == 'po':
        base[0] = dict(base[0], k='po')

    def target(f):
        if not bound:
            return f, None
        inst = type('K', (object,), {'m': f})()
        return inst.m, inst

    def observe(f):
        try:
            t, inst = target(f)
        except Exception as e:  # noqa
            return [{'route': 'bind', 'tag': 'other:' + type(e).__name__, 'ps': []}], []
        calls = modif.call_all(t, base, bound, inst)
        for c in calls:
            c['map'].pop('self', None)
        return modif.routes(t), calls
    perms = []
    # shared: ONE decorator object per step, applied again in every permutation (repeated use of a decorator must not change what it does)
    decos = [make_decorator(s) for s in steps] if shared else None
    for perm in itertools.permutations(range(len(steps))):
        f = modif.make(base)
        ok = 'ok'
        kept = []           # (earlier object, what it advertised when it was made)
        for j in perm:
            s = steps[j]
            kept.append((f, observe(f)))
            try:
                f = (decos[j] if shared else make_decorator(s))(f)
            except ValueError:
                ok = 'ValueError'
                break
            except Exception as e:  # noqa
                ok = 'other:' + type(e).__name__
                break
        # deriving a further variant from a kept object must not change what that object advertises (annotate is meant to, and is excluded)
        stable = all(observe(obj) == before for (obj, before), j in zip(kept, perm)
                     if not any(steps[x]['kind'] == 'ann' for x in perm))
        p = {'order': list(perm), 'applied': ok, 'adv': [], 'calls': [], 'kept_stable': stable}
        if ok == 'ok':
            p['adv'], p['calls'] = observe(f)
        perms.append(p)
    return {'tid': tid, 'op': 'order', 'base': base, 'steps': steps, 'bound': bound, 'perms': perms, 'case': {'base0': base0, 'steps': steps, 'bound': bound, 'shared': shared}}


def order_gen(U, n, seed):
    def gen(shard, nshards):
        rnd = random.Random(seed)
        for k in range(n):
            ps = U[rnd.randrange(len(U))]
            named = [p['n'] for p in ps if p['k'] in ('po', 'pok', 'kwo')]
            if not named:
                continue
            bound = rnd.random() < 0.4
            steps = []
            for kind in rnd.sample(['kwo', 'po', 'auto', 'ann', 'start', 'end'], rnd.choice([2, 2, 3])):
                if kind in ('start', 'end'):
                    names = [rnd.choice(named)]
                    if kind == 'end' and bound and rnd.random() < 0.15:
                        names = ['self']
                else:
                    names = rnd.sample(named, rnd.randrange(0 if kind == 'auto' else 1, min(2, len(named)) + 1))
                    if kind == 'po' and bound:
                        names = ['self'] + names          # a positional-only selection of a method has to include the instance parameter
                steps.append({'kind': kind, 'names': names})
            if k % nshards == shard:
                yield order_event('order/%d' % k, ps, steps, bound, shared=(k % 2 == 1))
    return gen


def describe(e, case):
    if e['op'] == 'history':
        return hist.describe(e, case)
    key = json.dumps([e['base'], e['steps'], e.get('bound', False)], sort_keys=True)
    nok = sum(1 for p in e['perms'] if p['applied'] == 'ok')
    return key, False, ('method ' if e.get('bound') else '') + 'def f%s with %s: %d orders, %d admissible' % (absig.sig_str(e['base']), [(s['kind'], s['names']) for s in e['steps']], len(e['perms']), nok)


def classify(tid, clause, case):
    return clause


def chain(*gens):
    def gen(shard, nshards):
        for g in gens:
            for e in g(shard, nshards):
                yield e
    return gen


def run(check, tier, seed, scratch):
    quick = tier == 'quick'
    # history part: model
    objhist_model(check, scratch, 'none', 5 if quick else 6)
    hists = objhist_model(check, scratch, 'weak', 4 if quick else 5, export=True)
    check.cov['histories_generated'] = len(hists)
    # order part: model
    d = scratch.sub('modorder')
    cfg = tlc.write_cfg(os.path.join(d, 'ModOrder.cfg'), spec='Spec', constants=dict(Names=set('abc'), MaxNamed=3 if not quick else 2, MaxSteps=3, RangeForms=True), invariants=['OrderIndep', 'OrderIndepSet', 'TypeOK'])
    r = tlc.run_tlc('ModOrder', cfg, scratch, workers=tlc.NCPU, timeout=2400, xmx='8g', coverage=True)
    check.add_model_run('ModOrder', r)
    if r.invariants_violated:
        check.error('ModOrder: invariant violated %s\n%s' % (r.invariants_violated, r.out[-2000:]))
    U3 = tlc.export_universe(scratch, 'abc', ['args'], ['kwargs'], 3)
    run_trace_leg(check, scratch, 'histories+orders', chain(hist_gen(hists, seed, 0.25 if quick else 0.06), order_gen(U3, 4000 if quick else 60000, seed + 3)), None,
                  module='Trace_Hist', describe=describe, classify=classify)
    check.cov['exhaustive'] = False
    check.cov['rule'] = ('histories: %s of the %d histories of %d operations over {bind, call, retrieve on instance, retrieve on class, annotate afterwards, forget, drop+collect} x '
                         '2 instances (class and subclass) generated by TLC from ObjHist, each on 8 kinds of descriptor; orders: %d seeded (base function from the 1972-signature '
                         'universe, as a function or as a method observed through an instance, 2-3 of kwoargs/posoargs/autokwoargs/annotate with <=2 names and the range forms kwoargs(start=) / posoargs(end=)), all permutations applied, admissible ones compared on every route and on the '
                         'complete call set; distinct by (kind, history) / (base, steps)' % ('a quarter' if quick else 'a seeded 6%', len(hists), 4 if quick else 5, 4000 if quick else 60000))
    check.assumptions += ['reclamation is observed through weakref + gc.collect() on CPython', 'a fresh twin = new classes from the same source, the same number of annotate re-decorations applied, the operation performed once']


def replay(check, case, scratch):
    c = case['case']

    def gen(shard, nshards):
        if shard == 0:
            if 'hist' in c:
                yield hist.history_event(case['tid'], c['kind'], c['hist'])
            else:
                yield order_event(case['tid'], c['base0'], c['steps'], c.get('bound', False), c.get('shared', False))
    run_trace_leg(check, scratch, 'replay', gen, None, nshards=1, module='Trace_Hist', describe=describe, classify=classify)
