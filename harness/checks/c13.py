"""C13 -- wrappers.decorator / wrapper_decorator / Combination are call-transparent.

(M)  spec/WrapMachine.tla: stacks of depth 1..Depth of wrapper functions around a base function; the reported signature is the fold
     of SigAlgebra!Forwards outwards; invariant ChainSound: every non-colliding call it accepts runs through the whole chain of CPython
     bindings (Wrappers!ChainOutcome) -- soundness of forwards extended to compositions.
(T)  real stacks (wrappers.decorator and wrappers.wrapper_decorator with the forwarding arguments matching the written call, depth 1..3,
     function / method / staticmethod) and Combinations of 1..3 functions, retrieved through four routes and really called on the call
     set with distinguishable values next to the HAND-WRITTEN composition of the same functions; TLC (Trace_Wrap) checks got = want for
     every call (values and exception classes), soundness of the reported signature on non-colliding calls, that binding as a method
     removes exactly the first parameter, and the wrappers() listing.
"""
import os
import random

from .. import alggen, tlc, wrapstack
from ..algebra import run_trace_leg
from . import c04

LEVEL = 'model_checking'
POOLS = [{'a': 'a', 'b': 'b'}, {'a': 'c', 'b': 'd'}, {'a': 'e', 'b': 'g'}]


def model(check, scratch, quick, seed):
    d = scratch.sub('wrap-model')
    cfg = tlc.write_cfg(os.path.join(d, 'WrapMachine.cfg'), spec='Spec', constants=dict(Names=set('ab'), MaxNamed=2, Depth=2 if quick else 3),
                        invariants=['ChainSound', 'ReportedValid'])
    r = tlc.run_tlc('WrapMachine', cfg, scratch, workers=tlc.NCPU, simulate='num=%d' % (100 if quick else 400), depth=6, seed=seed + 1, timeout=2400, xmx='8g')
    check.add_model_run('WrapMachine(simulated stacks)', r)
    check.legs['WrapMachine(simulated stacks)']['mode'] = 'simulate'
    if r.invariants_violated:
        check.error('WrapMachine invariant violated: %s\n%s' % (r.invariants_violated, r.out[-2500:]))


def stack_gen(UO, UB, nstacks, seed):
    def gen(shard, nshards):
        rnd = random.Random(seed)
        for k in range(nstacks):
            depth = rnd.choice([1, 1, 2, 2, 3])
            layers, kinds, fls = [], [], []
            for j in range(depth):
                o = c04.rename(UO[rnd.randrange(len(UO))], POOLS[j])
                kind = rnd.choice(['decorator', 'decorator', 'wrapper_decorator'])
                fl = {'n': 0, 'names': []}
                layers.append(o); kinds.append(kind); fls.append(fl)
            base = UB[rnd.randrange(len(UB))]
            # a wrapper_decorator layer may write positionals / a name of what it wraps: only the innermost one (the names of the next layer are known)
            if kinds[-1] == 'wrapper_decorator':
                pool = [p['n'] for p in base if p['k'] in ('pok', 'kwo')]
                fls[-1] = {'n': rnd.choice([0, 0, 1]), 'names': rnd.sample(pool, 1) if pool and rnd.random() < 0.4 else []}
            placement = ['function', 'function', 'method', 'static'][k % 4]
            reuse = False
            if k % 9 == 0 and depth >= 2:
                # the same wrapping function in every layer: only possible without own named parameters
                layers = [[p for p in layers[0] if p['k'] in ('var', 'vkw')]] * depth
                kinds, fls, reuse = [kinds[0]] * depth, [{'n': 0, 'names': []}] * depth, True
            if k % 13 == 5 and depth >= 2 and not reuse and any(p['k'] not in ('var', 'vkw') for p in layers[0]):
                # two DIFFERENT wrapping functions that call their own parameters alike (two decorators that both take timeout=)
                layers[1] = list(layers[0])
            if k % nshards == shard:
                yield wrapstack.stack_event('stack/%d' % k, layers, base, kinds, fls, placement, reuse=reuse, sigattr=(k % 7 == 3), stepwise=(k % 5 in (1, 2)))
    return gen


def comb_gen(U, ncomb, seed):
    arg = {'n': 'arg', 'k': 'pok', 'd': False, 'dv': 0, 'an': 0}

    def gen(shard, nshards):
        rnd = random.Random(seed)
        for k in range(ncomb):
            n = rnd.choice([1, 2, 2, 3])
            funcs = []
            for j in range(n):
                ps = U[rnd.randrange(len(U))]
                funcs.append([dict(arg, k='po' if ps and ps[0]['k'] == 'po' else 'pok')] + list(ps))
            if k % 11 == 4:
                # the first member takes the value through its *args (no parameter of its own for it)
                first = [p for p in funcs[0] if p['k'] in ('var', 'kwo', 'vkw')]
                if any(p['k'] == 'var' for p in first):
                    funcs[0] = first
            if k % nshards == shard:
                yield wrapstack.combination_event('comb/%d' % k, funcs, wrapped_member=(k % 5 == 0), forwarding_member=(k % 3 == 1))
    return gen


def classify(tid, clause, case):
    # known finding: two layers of a stack take an own parameter of the same name (the outer one shadows the inner one): forwards raises on the
    # duplicate, the stack falls back on the outermost wrapper's raw (*args, **kwargs) signature, which accepts calls the wrapped function rejects
    if clause == 'C13_AcceptedCallRaisesTypeError' and case and 'layers' in case:
        own = [{p['n'] for p in o if p['k'] not in ('var', 'vkw')} for o in case['layers']]
        if any(own[i] & own[j] for i in range(len(own)) for j in range(i + 1, len(own))):
            return 'stack-layers-share-an-own-parameter-name'
    return clause


def chain(*gens):
    def gen(shard, nshards):
        for g in gens:
            for e in g(shard, nshards):
                yield e
    return gen


def run(check, tier, seed, scratch):
    quick = tier == 'quick'
    model(check, scratch, quick, seed)
    U2 = tlc.export_universe(scratch, 'ab', ['args'], ['kwargs'], 2)
    # the property quantifies over decorator functions (func, <own params>, *args, **kwargs): both star parameters present
    UO = [ps for ps in U2 if any(p['k'] == 'var' for p in ps) and any(p['k'] == 'vkw' for p in ps)]
    UB = [c04.rename(ps, {'a': 'x', 'b': 'y'}) for ps in U2]
    nst, ncomb = (5000, 3000) if quick else (40000, 15000)
    run_trace_leg(check, scratch, 'stacks+combinations', chain(stack_gen(UO, UB, nst, seed), comb_gen(UB, ncomb, seed + 7)), None,
                  module='Trace_Wrap', describe=wrapstack.describe, classify=classify)
    check.cov['exhaustive'] = False
    check.cov['rule'] = ('%d seeded stacks: depth 1..3, each layer a wrapper function (func, <own>, *args, **kwargs) from the %d universe signatures that have both stars, over its own name pool, made a decorator with '
                         'wrappers.decorator or wrappers.wrapper_decorator (the innermost one possibly with written positionals / a written name), base from the 220-signature '
                         'universe, placements function / method / staticmethod; %d seeded Combinations of 1..3 universe functions; every one called on every positional count x '
                         'keyword subsets of size <= 3 of the call set next to the hand-written composition; distinct by (layers, base, kinds, flags, placement)' % (nst, len(UO), ncomb))
    check.assumptions += ['Combination soundness is claimed for role-consistent functions only (as merge requires); transparency (result = hand-written composition) for all',
                          'call sets use keyword subsets of size <= 3']


def replay(check, case, scratch):
    c = case['case']

    def gen(shard, nshards):
        if shard == 0:
            if 'funcs' in c:
                yield wrapstack.combination_event(case['tid'], c['funcs'], wrapped_member=c.get('wrapped_member', False), forwarding_member=c.get('forwarding_member', False))
            else:
                yield wrapstack.stack_event(case['tid'], c['layers'], c['base'], c['kinds'], c['fls'], c['placement'], reuse=c.get('reuse', False), sigattr=c.get('sigattr', False), stepwise=c.get('stepwise', False))
    run_trace_leg(check, scratch, 'replay', gen, None, nshards=1, module='Trace_Wrap', describe=wrapstack.describe, classify=classify)
