"""C03 -- mask: exact residual signature after n positionals and named arguments.

(M)  SigMachine Op = mask: C03_Exact / C03_RaiseIff (flag-free) and C03_HideRemovesAll / C03_HideSound (with flags).
(T)  real mask over every signature x n in 0..len+2 x duplicate-free name tuples in EVERY order x hide flag sets;
     laws, both sides real: order independence (all permutations of the names give the same outcome), mask(s, 0) = s,
     mask(mask(s, n), m) = mask(s, n + m), a hidden result only removes parameters from the unhidden one.
"""
import itertools

from .. import algebra, alggen, tlc, absig
from ..algebra import Universe, run_trace_leg, model_leg, law_event, flags

LEVEL = 'model_checking'
WANT = ['C03', 'LAW', 'DRIFT']


def do_mask(s, n, names, **h):
    from sigtools import signatures
    return signatures.mask(s, n, *names, **h)


def law_gen(u, U, maxnames):
    def gen(shard, nshards):
        for i in range(len(U)):
            if i % nshards != shard:
                continue
            s = u.sig(i, 1)
            ps = U[i]
            case = {'op': 'mask', 'ins': [ps]}
            npos = sum(1 for p in ps if p['k'] in ('po', 'pok'))
            yield law_event(u, 'zero/%d' % i, 'C03_Zero', [lambda: do_mask(s, 0, ()), lambda: s], cmp='all', case=case)
            for n in range(npos + 2):
                for m in range(3):
                    yield law_event(u, 'compose/%d-%d-%d' % (i, n, m), 'C03_Compose',
                                    [lambda: do_mask(do_mask(s, n, ()), m, ()), lambda: do_mask(s, n + m, ())], cmp='all',
                                    case=dict(case, fl=flags(n=n), m=m))
            pool = [p['n'] for p in ps if p['k'] != 'po'] + [alggen.FOREIGN]
            for n in range(npos + 1):
                for k in range(2, maxnames + 1):
                    for names in itertools.combinations(pool, k):
                        perms = list(itertools.permutations(names))
                        yield law_event(u, 'order/%d-%d-%s' % (i, n, '.'.join(names)), 'C03_OrderIndependent',
                                        [(lambda p=p: do_mask(s, n, p)) for p in perms], cmp='all',
                                        case=dict(case, fl=flags(n=n, names=list(names))))
            for n in range(npos + 1):
                for names in [()] + [(x,) for x in pool]:
                    for h in alggen.HIDE_SETS[1:]:
                        hh = dict(hide_args=h['ha'], hide_kwargs=h['hk'], hide_varargs=h['hva'], hide_varkwargs=h['hvk'])
                        yield law_event(u, 'hide/%d-%d-%s-%d%d%d%d' % (i, n, '.'.join(names), h['ha'], h['hk'], h['hva'], h['hvk']),
                                        'C03_HideOnlyRemoves', [lambda: do_mask(s, n, names, **hh), lambda: do_mask(s, n, names)], cmp='subseq',
                                        case=dict(case, fl=flags(n=n, names=list(names), **h)))
    return gen


def classify(tid, clause, case):
    return clause


def run(check, tier, seed, scratch):
    quick = tier == 'quick'
    U2 = tlc.export_universe(scratch, 'ab', ['args'], ['kwargs'], 2)
    UP = U2 if quick else tlc.export_universe(scratch, 'abc', ['args'], ['kwargs'], 3)
    base = dict(StarV={'args'}, StarK={'kwargs'}, Op='mask', Arity=1, MaxN=2)
    cex = model_leg(check, scratch, 'mask-U220-noflags', dict(base, Names=set('ab'), MaxNamed=2, MaxNamesLen=2, HideFlags=False), ['C03'])
    cex += model_leg(check, scratch, 'mask-U220-flags', dict(base, Names=set('ab'), MaxNamed=2, MaxNamesLen=1, HideFlags=True), ['C03'],
                     invariants=['Inv_C03_HideIsFilter'])
    if not quick:
        cex += model_leg(check, scratch, 'mask-U1972-noflags', dict(base, Names=set('abc'), MaxNamed=3, MaxNamesLen=3, HideFlags=False), ['C03'], timeout=3000)
    check.cov['model_counterexamples'] = len(cex)
    up, cu = Universe(UP), algebra.CaseUniverse()
    maxnames = 2 if quick else 3
    # deeper signatures: the positional buckets of _mask only interact with >= 2 positional-only AND >= 2 regular parameters
    import random
    U4 = tlc.export_universe(scratch, 'abcd', ['args'], ['kwargs'], 4)
    U4s = random.Random(seed + 4).sample([ps for ps in U4 if sum(1 for p in ps if p['k'] in ('po', 'pok')) >= 3], 120 if quick else 3000)
    u4 = Universe(U4s)
    gen = alggen.chain(alggen.mask_events(up, UP, hide='all', sample_hide=0.15 if quick else 0.5, seed=seed, maxnames=2),
                       alggen.mask_events(u4, U4s, tag='mask4', hide='none', maxnames=1), law_gen(u4, U4s, 1),
                       law_gen(up, UP, maxnames), alggen.cex_events(cu, 'mask', cex))
    run_trace_leg(check, scratch, 'mask+laws', gen, WANT, classify=classify)
    check.cov['exhaustive'] = True
    check.cov['rule'] = ('every signature of the %d-signature universe x n in 0..len+2 x duplicate-free name tuples (<=2, every order) over its '
                         'names + a foreign one, flag-free exhaustively and the 15 hide-flag sets on a seeded sample; laws zero/compose/order '
                         '(<=%d names, all permutations)/hide-only-removes on every signature; plus %d seeded signatures with >= 3 positional parameters from the universe of <= 4 named; '
                         'distinct by (inputs, flags)' % (len(UP), maxnames, len(U4s)))
    check.assumptions += ['names naming a positional-only parameter are excluded (as the property says)', 'PyBind!Accepts validated by C20']


def replay(check, case, scratch):
    from sigtools import signatures
    cu = algebra.CaseUniverse()
    c = case['case']

    def gen(shard, nshards):
        if shard != 0:
            return
        cl = case['clause']
        f = absig.make_func(c['ins'][0], name='f1')
        s = signatures.signature(f)
        fl = c.get('fl') or flags()
        if cl == 'C03_OrderIndependent':
            perms = list(itertools.permutations(fl['names']))
            yield law_event(cu, case['tid'], cl, [(lambda p=p: do_mask(s, fl['n'], p)) for p in perms], cmp='all', case=c)
        elif cl == 'C03_Zero':
            yield law_event(cu, case['tid'], cl, [lambda: do_mask(s, 0, ()), lambda: s], cmp='all', case=c)
        elif cl == 'C03_Compose':
            n, m = fl['n'], c['m']
            yield law_event(cu, case['tid'], cl, [lambda: do_mask(do_mask(s, n, ()), m, ()), lambda: do_mask(s, n + m, ())], cmp='all', case=c)
        elif cl == 'C03_HideOnlyRemoves':
            hh = dict(hide_args=fl['ha'], hide_kwargs=fl['hk'], hide_varargs=fl['hva'], hide_varkwargs=fl['hvk'])
            yield law_event(cu, case['tid'], cl, [lambda: do_mask(s, fl['n'], fl['names'], **hh), lambda: do_mask(s, fl['n'], fl['names'])], cmp='subseq', case=c)
        else:
            yield algebra.case_event(cu, case['tid'], 'mask', c['ins'], {k: v for k, v in fl.items() if k in algebra.FLAGS0})
    run_trace_leg(check, scratch, 'replay', gen, WANT, nshards=1, classify=classify)
