"""C08 -- parameter provenance is complete, truthful and depth-ordered.

(M)  SigMachine (merge / embed / mask / forwards) over a universe with equal AND different star names: SourcesWF and
     SourcesVsInputs as invariants of every result.
(T)  the same clauses evaluated by TLC on every result the real algebra returns: merge pairs and triples, embed pairs and
     triples, mask, forwards; inputs are plain retrievals (one callable each), so 'exactly the declaring inputs' is decidable.
"""
import random

from .. import algebra, alggen, tlc, absig
from ..algebra import Universe, run_trace_leg, model_leg, law_event, event

LEVEL = 'model_checking'
WANT = ['C08', 'DRIFT']


def same_callable_events(u, U):
    """the same callable contributing through two merged signatures (merge(s, s); both branches call one callee)"""
    from sigtools import signatures

    def gen(shard, nshards):
        for i in range(len(U)):
            if i % nshards == shard:
                s = u.sig(i, 1)
                yield event(u, 'mergesame/%d' % i, 'merge', [s, s], lambda: signatures.merge(s, s), case={'op': 'merge-same-callable', 'ins': [U[i]]})
    return gen


def reuse_events(u, U, uo, UO, n, seed):
    """the SAME signature objects used by several operations one after the other: what an earlier operation did to its inputs shows in the next"""
    import random
    from sigtools import signatures

    def gen(shard, nshards):
        rnd = random.Random(seed)
        for k in range(n):
            a, b = rnd.randrange(len(UO)), rnd.randrange(len(U))
            if k % nshards != shard:
                continue
            o, s = uo.sig(a, 1), u.sig(b, 2)
            for pre in (lambda: signatures.mask(s, 0), lambda: signatures.mask(s, 1), lambda: signatures.forwards(o, s, 0), lambda: signatures.sort_params(s, sources=True)):
                try:
                    pre()
                except ValueError:
                    pass
            op = rnd.choice(['forwards', 'embed', 'merge'])
            thunk = {'forwards': lambda: signatures.forwards(o, s, 0), 'embed': lambda: signatures.embed(o, s), 'merge': lambda: signatures.merge(o, s)}[op]
            yield event(u, 'reuse/%d' % k, op, [o, s], thunk, case={'op': op + '-after-reuse', 'ins': [UO[a], U[b]]})
    return gen


def depth_events(uo, UO, n, seed):
    """a callable reached twice at different depths: merge(embed(A, B, C), embed(A, C)) in both orders, embed(A, embed(B, C), ...)"""
    import random
    from sigtools import signatures

    def gen(shard, nshards):
        rnd = random.Random(seed)
        for k in range(n):
            idx = [rnd.randrange(len(UO)) for _ in range(3)]
            if k % nshards != shard:
                continue
            A, B, C = [uo.sig(i, slot + 1) for slot, i in enumerate(idx)]
            try:
                e3, e2 = signatures.embed(A, B, C), signatures.embed(A, C)
            except ValueError:
                continue
            for tag, ins in (('32', [e3, e2]), ('23', [e2, e3])):
                yield event(uo, 'depth/%d-%s' % (k, tag), 'merge', ins, lambda: signatures.merge(*ins), plain=False, case={'op': 'merge-of-embeds-' + tag, 'ins': [UO[i] for i in idx]})
    return gen


def classify(tid, clause, case):
    # D20 (known finding): the SAME callable contributing through two merged signatures is listed twice
    if clause == 'C08_NoDup' and case and (case.get('op') == 'merge-same-callable' or str(case.get('op', '')).startswith('merge-of-embeds')):
        return 'nodup-same-callable-merged-twice'
    return clause


def run(check, tier, seed, scratch):
    quick = tier == 'quick'
    U2 = tlc.export_universe(scratch, 'ab', ['args'], ['kwargs'], 2)                 # 220
    US = tlc.export_universe(scratch, 'ab', ['args', 'p'], ['kwargs', 'k'], 2)       # 495: equal and different star names
    U3 = tlc.export_universe(scratch, 'abc', ['args'], ['kwargs'], 2)                # 580
    base = dict(StarV={'args', 'p'}, StarK={'kwargs', 'k'}, Names=set('ab'), MaxN=1, MaxNamesLen=1, HideFlags=False)
    cex = []
    small = dict(base, MaxNamed=1)
    cex += [('merge', c) for c in model_leg(check, scratch, 'merge-pairs-U495', dict(base, MaxNamed=2, Op='merge', Arity=2), ['C08'])]
    cex += [('embed', c) for c in model_leg(check, scratch, 'embed-pairs-U495', dict(base, MaxNamed=2, Op='embed', Arity=2), ['C08'])]
    cex += [('mask', c) for c in model_leg(check, scratch, 'mask-U495', dict(base, MaxNamed=2, Op='mask', Arity=1), ['C08'])]
    cex += [('merge', c) for c in model_leg(check, scratch, 'merge-triples-sim', dict(base, Names=set('abc'), MaxNamed=2, Op='merge', Arity=3), ['C08'],
                                            simulate='num=%d' % (20000 if quick else 300000), depth=5, seed=seed + 1)]
    cex += [('embed', c) for c in model_leg(check, scratch, 'embed-triples-sim', dict(base, MaxNamed=2, Op='embed', Arity=3), ['C08'],
                                            simulate='num=%d' % (20000 if quick else 300000), depth=5, seed=seed + 2)]
    if not quick:
        cex += [('forwards', c) for c in model_leg(check, scratch, 'forwards-U220', dict(base, StarV={'args'}, StarK={'kwargs'}, MaxNamed=2, Op='forwards', Arity=2), ['C08'], timeout=3000)]
    check.cov['model_counterexamples'] = len(cex)
    u2, us, u3, cu = Universe(U2), Universe(US), Universe(U3), algebra.CaseUniverse()
    frac = 0.12 if quick else 1.0
    UO = [ps for ps in U2 if alggen.has_star(ps)]
    uo = Universe(UO)
    gens = [alggen.merge_pairs(us, US, tag='merge2s', sample=frac, seed=seed),
            alggen.embed_pairs(us, US, tag='embed2s', sample_other=0.0, seed=seed) if not quick else alggen.embed_pairs(u2, U2, sample_other=0.1, seed=seed),
            alggen.merge_pairs(u2, U2) if quick else alggen.merge_pairs(u3, U3, tag='merge2c'),
            alggen.merge_tuples(u3, U3, alggen.random_tuples(10000 if quick else 400000, len(U3), 3, seed)),
            alggen.embed_tuples(us, US, alggen.random_tuples(10000 if quick else 400000, len(US), 3, seed + 5)),
            alggen.mask_events(us, US, hide='all', sample_hide=0.05 if quick else 0.3, seed=seed),
            alggen.forwards_events(uo, UO, u2, U2, sample=0.01 if quick else 0.2, seed=seed, hide=True),
            same_callable_events(u2, U2),
            reuse_events(u2, U2, uo, UO, 3000 if quick else 60000, seed + 11), depth_events(uo, UO, 3000 if quick else 60000, seed + 12)]
    if quick:
        # embed with same-named and different-named stars on a sample of the 495 universe
        pairs = alggen.random_tuples(25000, len(US), 2, seed + 9)
        gens.append(alggen.embed_tuples(us, US, pairs, tag='embed2s'))
    # folds whose INTERMEDIATE result has a star parameter spelled like a named one (a function with a parameter called args embedded in front of
    # one with *args): the clash is gone once the star is forwarded on, the sources entry of the named parameter has to survive it
    from . import c04
    Ui = [c04.rename(ps, {'a': 'args', 'b': 'kwargs'}) for ps in tlc.export_universe(scratch, 'ab', ['rest'], ['kw'], 2) if alggen.has_star(ps)]
    Umix = UO + Ui
    rmix = random.Random(seed + 21)
    mix3 = [(len(UO) + rmix.randrange(len(Ui)), rmix.randrange(len(UO)), rmix.randrange(len(Umix))) for _ in range(6000 if quick else 120000)]
    gens.append(alggen.embed_tuples(Universe(Umix), Umix, mix3, tag='embed3-starnames'))
    for op in ('merge', 'embed', 'mask', 'forwards'):
        gens.append(alggen.cex_events(cu, op, [c for o, c in cex if o == op], tag='modelcex-' + op))
    run_trace_leg(check, scratch, 'provenance', alggen.chain(*gens), WANT, classify=classify)
    check.cov['exhaustive'] = not quick
    check.cov['rule'] = ('results of merge (pairs, triples, same callable twice), embed (pairs, triples), mask (all flags) and forwards over universes '
                         'with equal and different star names (495 signatures: names a,b; stars args|p, kwargs|k) and the 220/580 universes; '
                         'exhaustive pairs in thorough, seeded samples in quick; distinct by (inputs, flags)')
    check.assumptions += ["'consistently named inputs' is read as role-consistent for merge and as 'no named parameter shared' for embed/forwards (DESIGN §5 C08)"]


def replay(check, case, scratch):
    from sigtools import signatures
    cu = algebra.CaseUniverse()
    c = case['case']

    def gen(shard, nshards):
        if shard != 0:
            return
        if c['op'] == 'merge-same-callable':
            f = absig.make_func(c['ins'][0], name='f1')
            s = signatures.signature(f)
            yield event(cu, case['tid'], 'merge', [s, s], lambda: signatures.merge(s, s), case=c)
        else:
            yield algebra.case_event(cu, case['tid'], c['op'], c['ins'], {k: v for k, v in (c.get('fl') or {}).items() if k in algebra.FLAGS0})
    run_trace_leg(check, scratch, 'replay', gen, WANT, nshards=1, classify=classify)
