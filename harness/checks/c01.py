"""C01 -- merge: a call accepted by the merged signature is accepted by every input.

(M)  SigMachine, Op = merge: exhaustive over all pairs of the universe, simulation at arity 3 (the n-ary fold);
     every model-level counterexample is exported and replayed into the real code.
(T)  the real signatures.merge on every pair of the universe, on sampled triples and on every model counterexample;
     TLC (Trace_Algebra) evaluates C01_Sound on each recorded event.  Only this leg yields VIOLATION lines.
"""
import itertools
import random

from .. import alggen, algebra, tlc
from ..algebra import Universe, case_event, run_trace_leg, model_leg

LEVEL = 'model_checking'
WANT = ['C01', 'DRIFT']


def classify(tid, clause, case):
    return clause


def run(check, tier, seed, scratch):
    from sigtools import signatures
    quick = tier == 'quick'
    names2, names3 = 'ab', 'abc'
    U2 = tlc.export_universe(scratch, names2, ['args'], ['kwargs'], 2)          # 220
    U3 = tlc.export_universe(scratch, names3, ['args'], ['kwargs'], 2)          # 580
    UP = U2 if quick else tlc.export_universe(scratch, names3, ['args'], ['kwargs'], 3)   # 1972 in thorough
    base = dict(StarV={'args'}, StarK={'kwargs'}, Op='merge', MaxN=0, MaxNamesLen=0, HideFlags=False)

    # ---- (M) model leg
    cex = []
    cex += model_leg(check, scratch, 'merge-pairs-U220', dict(base, Names=set(names2), MaxNamed=2, Arity=2), ['C01'])
    nsim = 30000 if quick else 400000
    cex += model_leg(check, scratch, 'merge-triples-U580-sim', dict(base, Names=set(names3), MaxNamed=2, Arity=3), ['C01'],
                     simulate='num=%d' % nsim, depth=5, seed=seed + 1)
    if not quick:
        cex += model_leg(check, scratch, 'merge-pairs-U580', dict(base, Names=set(names3), MaxNamed=2, Arity=2), ['C01'])
        cex += model_leg(check, scratch, 'merge-quads-U220-sim', dict(base, Names=set(names2), MaxNamed=2, Arity=4), ['C01'],
                         simulate='num=200000', depth=6, seed=seed + 2)
    check.cov['model_counterexamples'] = len(cex)

    # ---- (T) trace leg
    up = Universe(UP)
    u3 = Universe(U3)
    cu = algebra.CaseUniverse()
    rnd = random.Random(seed)
    ntri = 40000 if quick else 1500000
    triples = [(rnd.randrange(len(U3)), rnd.randrange(len(U3)), rnd.randrange(len(U3))) for _ in range(ntri)]
    npairs = len(UP) ** 2

    UM = tlc.export_universe(scratch, names2, ['args'], ['kwargs'], 2, dvs=[2, 3], ans=[0, 1, 2])     # 3 676 signatures with metadata
    um = Universe(UM)
    nmeta = 12000 if quick else 400000
    meta_tuples = [tuple(rnd.randrange(len(UM)) for _ in range(rnd.choice([2, 2, 3]))) for _ in range(nmeta)]

    def gen(shard, nshards):
        k = 0
        for i in range(len(UP)):
            for j in range(len(UP)):
                if k % nshards == shard:
                    a, b = up.sig(i, 1), up.sig(j, 2)
                    yield algebra.event(up, 'merge2/%d-%d' % (i, j), 'merge', [a, b], lambda: signatures.merge(a, b),
                                        case={'op': 'merge', 'ins': [UP[i], UP[j]]})
                k += 1
        for t, (i, j, m) in enumerate(triples):
            if t % nshards == shard:
                a, b, c = u3.sig(i, 1), u3.sig(j, 2), u3.sig(m, 3)
                yield algebra.event(u3, 'merge3/%d-%d-%d' % (i, j, m), 'merge', [a, b, c], lambda: signatures.merge(a, b, c),
                                    case={'op': 'merge', 'ins': [U3[i], U3[j], U3[m]]})
        for t, (clause, case) in enumerate(cex):
            if t % nshards == shard:
                yield case_event(cu, 'modelcex/%d' % t, 'merge', case['ins'])
        # metadata must not matter for soundness: the same contract on inputs carrying defaults values and annotations on arbitrary subsets
        for t, idx in enumerate(meta_tuples):
            if t % nshards == shard:
                sigs = [um.sig(i, s + 1) for s, i in enumerate(idx)]
                yield algebra.event(um, 'mergemeta/%s' % '-'.join(map(str, idx)), 'merge', sigs, lambda: signatures.merge(*sigs),
                                    case={'op': 'merge', 'ins': [UM[i] for i in idx]})

    # "renaming" families: three regular parameters on each side, every position either keeps the left name or has a name of its own on
    # the right (a, b, c) x (x|a, y|b, z|c) -- names met again after a rename -- with defaults on suffixes and every star combination
    import itertools
    P = lambda n, d=False: {'n': n, 'k': 'pok', 'd': d, 'dv': 0, 'an': 0}      # noqa
    stars = [[], [{'n': 'args', 'k': 'var', 'd': False, 'dv': 0, 'an': 0}], [{'n': 'kwargs', 'k': 'vkw', 'd': False, 'dv': 0, 'an': 0}],
             [{'n': 'args', 'k': 'var', 'd': False, 'dv': 0, 'an': 0}, {'n': 'kwargs', 'k': 'vkw', 'd': False, 'dv': 0, 'an': 0}]]
    UR = []
    for names in itertools.product(*[(l, r) for l, r in zip('abc', 'xyz')]):
        for ndef in (0, 1):
            for st in stars:
                UR.append([P(n, d=(k >= 3 - ndef)) for k, n in enumerate(names)] + st)
    ur = Universe(UR)
    rpairs = [(i, j) for i in range(len(UR)) for j in range(len(UR))]
    rtriples = [tuple(rnd.randrange(len(UR)) for _ in range(3)) for _ in range(3000 if quick else 60000)]
    if quick:
        rpairs = random.Random(seed + 3).sample(rpairs, 2500)
    renaming = alggen.chain(alggen.merge_tuples(ur, UR, rpairs, tag='merge-renaming2'), alggen.merge_tuples(ur, UR, rtriples, tag='merge-renaming3'))
    run_trace_leg(check, scratch, 'merge', alggen.chain(gen, renaming), WANT, classify=classify)
    check.cov['exhaustive'] = True
    check.cov['rule'] = ('every ordered pair of the %d-signature universe (exhaustive), %d seeded random triples of the '
                         '580-signature universe, %d seeded pairs/triples of the 3 676-signature universe with default values and annotations, and every counterexample the model leg exported; an event is distinct by '
                         '(inputs, flags); call shapes per event: the complete set of PyBind!CallsFor' % (len(UP), ntri, nmeta))
    check.assumptions += ['bound: <=%d named parameters per signature, star names args/kwargs' % (2 if quick else 3),
                          'PyBind!Accepts is CPython binding (validated by check C20)']


def replay(check, case, scratch):
    cu = algebra.CaseUniverse()
    c = case['case']

    def gen(shard, nshards):
        if shard == 0:
            yield case_event(cu, case['tid'], c['op'], c['ins'], c.get('fl'))
    run_trace_leg(check, scratch, 'replay', gen, WANT, nshards=1, classify=classify)
