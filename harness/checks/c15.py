"""C15 -- the algebra fails only with ValueError and never yields malformed output.

(M)  ValidSig / upgraded / '+depths' of every SigAlgebra result is an invariant of SigMachine (merge, embed, mask, forwards).
(T)  every outcome of the real merge / embed / mask / forwards -- role-inconsistent inputs, foreign and duplicate names,
     n up to len+2, all flags included -- is a well-formed signature, IncompatibleSignatures or (where allowed) ValueError;
     any other exception class is logged as other:<name> and fails C15_OnlyValueError.  Each sampled case is run a second
     time with downgraded (plain inspect) inputs: same parameters, and a DeprecationWarning was emitted (both real).
"""
import inspect
import random
import warnings

from .. import algebra, alggen, tlc, absig
from ..algebra import Universe, run_trace_leg, model_leg, law_event, flags, event

LEVEL = 'model_checking'
WANT = ['C15', 'LAW', 'DRIFT']


def downgrade(sig):
    return inspect.Signature([inspect.Parameter(p.name, p.kind, default=p.default, annotation=p.annotation)
                              for p in sig.parameters.values()], return_annotation=sig.return_annotation)


def plain_twin_events(u, U, cases):
    """cases: (op, idx tuple, flags) -> law event comparing upgraded and plain runs"""
    def gen(shard, nshards):
        for t, (op, idx, fl) in enumerate(cases):
            if t % nshards != shard:
                continue
            sigs = [u.sig(i, s + 1) for s, i in enumerate(idx)]
            # all inputs plain, or (every third case) only the first one
            plain = [downgrade(s) if (t % 3 or k == 0) else s for k, s in enumerate(sigs)]
            warned = []

            def run_plain():
                with warnings.catch_warnings(record=True) as w:
                    warnings.simplefilter('always')
                    try:
                        return algebra.apply_op(op, plain, fl)
                    finally:
                        warned.append(any(issubclass(x.category, DeprecationWarning) for x in w))
            results_thunks = [lambda: algebra.apply_op(op, sigs, fl), run_plain]
            e = law_event(u, 'plain/%s-%s-%d' % (op, '.'.join(map(str, idx)), t), 'C15_PlainInputsSameParams', results_thunks, cmp='ps',
                          case={'op': op, 'ins': [U[i] for i in idx], 'fl': fl})
            # ... together with a DeprecationWarning, and the result is as well-formed as with upgraded inputs ('+depths' map)
            # (an operation that raises before it gets to look at the plain input owes no warning)
            e['side'] = e['results'][1]['tag'] != 'sig' or (bool(warned and warned[0]) and all(r.get('hasdepths', True) for r in e['results'] if r['tag'] == 'sig'))
            yield e
    return gen


def unevaluable_events(U, n, seed):
    """functions compiled with the future flag whose annotations raise AttributeError / TypeError / NameError when evaluated: the algebra
    compares annotations, and still must answer with a signature or a ValueError"""
    from sigtools import signatures

    def gen(shard, nshards):
        rnd = random.Random(seed)
        cu = algebra.CaseUniverse()
        for k in range(n):
            pss = [[dict(p, an=(rnd.choice([91, 92, 93]) if p['k'] not in ('var', 'vkw') else 0)) for p in U[rnd.randrange(len(U))]] for _ in range(rnd.choice([2, 2, 3]))]
            op = rnd.choice(['merge', 'embed', 'forwards'])
            if op == 'forwards':
                pss = pss[:2]
            if k % nshards != shard:
                continue
            fs = [absig.make_func(ps, name='f%d' % (j + 1), future=True) for j, ps in enumerate(pss)]
            sigs = [signatures.signature(f) for f in fs]
            fl = flags()
            thunk = (lambda: signatures.merge(*sigs)) if op == 'merge' else (lambda: signatures.embed(*sigs)) if op == 'embed' else (lambda: signatures.forwards(sigs[0], sigs[1]))
            # (the projection reads the raw annotation text only; evaluation happens inside the operation, if at all)
            yield event(cu, 'uneval/%d' % k, op, sigs, thunk, fl=fl, plain=False, case={'op': op, 'ins': pss, 'fl': fl, 'future': True})
    return gen


def dup_name_masks(u, U):
    def gen(shard, nshards):
        k = 0
        for i in range(len(U)):
            pool = [p['n'] for p in U[i]] + [alggen.FOREIGN]
            for x in pool:
                if k % nshards == shard:
                    s = u.sig(i, 1)
                    fl = flags(names=[x, x])
                    yield event(u, 'maskdup/%d-%s' % (i, x), 'mask', [s], lambda: algebra.apply_op('mask', [s], fl), fl=fl,
                                case={'op': 'mask', 'ins': [U[i]], 'fl': fl})
                k += 1
    return gen


def run(check, tier, seed, scratch):
    quick = tier == 'quick'
    U2 = tlc.export_universe(scratch, 'ab', ['args'], ['kwargs'], 2)
    U3 = tlc.export_universe(scratch, 'abc', ['args'], ['kwargs'], 2)
    base = dict(StarV={'args'}, StarK={'kwargs'}, Names=set('ab'), MaxNamed=2, MaxN=2, MaxNamesLen=1, HideFlags=True)
    cex = []
    for op, ar in (('merge', 2), ('embed', 2), ('mask', 1)):
        cex += [(op, c) for c in model_leg(check, scratch, '%s-U220' % op, dict(base, Op=op, Arity=ar), ['C15'])]
    cex += [('merge', c) for c in model_leg(check, scratch, 'merge-triples-sim', dict(base, Names=set('abc'), Op='merge', Arity=3), ['C15'],
                                            simulate='num=%d' % (15000 if quick else 200000), depth=5, seed=seed + 1)]
    if not quick:
        cex += [('forwards', c) for c in model_leg(check, scratch, 'forwards-U220', dict(base, Op='forwards', Arity=2, HideFlags=False), ['C15'], timeout=3000)]
    check.cov['model_counterexamples'] = len(cex)
    u2, u3, cu = Universe(U2), Universe(U3), algebra.CaseUniverse()
    UO = [ps for ps in U2 if alggen.has_star(ps)]
    uo = Universe(UO)
    rnd = random.Random(seed)
    twin = []
    for _ in range(4000 if quick else 60000):
        op = rnd.choice(['merge', 'embed', 'mask', 'forwards', 'merge3'])
        if op == 'merge3':
            twin.append(('merge', tuple(rnd.randrange(len(U2)) for _ in range(3)), flags()))
        elif op in ('merge', 'embed'):
            twin.append((op, (rnd.randrange(len(U2)), rnd.randrange(len(U2))), flags(uva=rnd.random() < .8, uvk=rnd.random() < .8)))
        elif op == 'mask':
            i = rnd.randrange(len(U2))
            pool = [p['n'] for p in U2[i]] + [alggen.FOREIGN]
            twin.append((op, (i,), flags(n=rnd.randrange(3), names=rnd.sample(pool, rnd.randrange(min(3, len(pool) + 1))),
                                         ha=rnd.random() < .2, hk=rnd.random() < .2, hva=rnd.random() < .2, hvk=rnd.random() < .2)))
        else:
            j = rnd.randrange(len(U2))
            pool = [p['n'] for p in U2[j]] + [alggen.FOREIGN]
            twin.append((op, (rnd.randrange(len(U2)), j), flags(n=rnd.randrange(3), names=rnd.sample(pool, rnd.randrange(min(2, len(pool) + 1))),
                                                                partial=rnd.random() < .3, ha=rnd.random() < .2, hk=rnd.random() < .2)))
    gens = [alggen.merge_pairs(u2, U2),
            alggen.embed_pairs(u2, U2, sample_other=0.15 if quick else 1.0, seed=seed),
            alggen.merge_tuples(u3, U3, alggen.random_tuples(15000 if quick else 500000, len(U3), 3, seed)),
            alggen.embed_tuples(u2, U2, alggen.random_tuples(8000 if quick else 300000, len(U2), 3, seed + 3)),
            alggen.mask_events(u2, U2, hide='all', sample_hide=0.1 if quick else 1.0, seed=seed),
            dup_name_masks(u2, U2),
            alggen.forwards_events(uo, UO, u2, U2, sample=0.008 if quick else 0.3, seed=seed, hide=True),
            plain_twin_events(u2, U2, twin), unevaluable_events(U2, 3000 if quick else 80000, seed + 17)]
    # the same over signatures WITH metadata (two default values, two annotations): "the same parameters" includes what they carry
    UM = tlc.export_universe(scratch, 'ab', ['args'], ['kwargs'], 2, dvs=[2, 3], ans=[0, 1, 2])
    twin_m = []
    for _ in range(3000 if quick else 60000):
        op = rnd.choice(['merge', 'merge', 'embed', 'merge3'])
        ar = 3 if op == 'merge3' else 2
        twin_m.append(('merge' if op == 'merge3' else op, tuple(rnd.randrange(len(UM)) for _ in range(ar)), flags(uva=rnd.random() < .8, uvk=rnd.random() < .8)))
    gens.append(plain_twin_events(Universe(UM), UM, twin_m))
    # annotation / default VALUES with an unusual == (equal to everything, no truth value, raising, not equal to itself): still a signature or a ValueError
    from .c10 import UnusualUniverse
    UMu = [ps for ps in UM if all(p['an'] in (0, 1) and p['dv'] in (0, 2) for p in ps)][::3 if quick else 1]
    for mode in ('anyeq', 'notruth', 'raises', 'never'):
        uu = UnusualUniverse(UMu, mode)
        gens.append(alggen.merge_tuples(uu, UMu, alggen.random_tuples(1500 if quick else 40000, len(UMu), 2, seed + 21), tag='merge2-unusual-' + mode))
        gens.append(alggen.merge_tuples(uu, UMu, alggen.random_tuples(700 if quick else 20000, len(UMu), 3, seed + 22), tag='merge3-unusual-' + mode))
        gens.append(alggen.embed_tuples(uu, UMu, alggen.random_tuples(1500 if quick else 40000, len(UMu), 2, seed + 23), tag='embed2-unusual-' + mode))
    for op in ('merge', 'embed', 'mask', 'forwards'):
        gens.append(alggen.cex_events(cu, op, [c for o, c in cex if o == op], tag='modelcex-' + op))
    run_trace_leg(check, scratch, 'robustness', alggen.chain(*gens), WANT)
    # retrieval level: "signature retrieval turns such failures into its fallback".  Wrappers whose WRITTEN call the callee cannot take
    # (too many positionals, an unknown keyword, a parameter passed twice) make forwards / mask raise inside discovery.
    from . import c04

    def unhonourable(shard, nshards):
        r2 = random.Random(seed + 21)
        UI = [c04.rename(ps, {'a': 'x', 'b': 'y'}) for ps in U2]
        for k in range(2500 if quick else 60000):
            a, b = r2.randrange(len(UO)), r2.randrange(len(UI))
            inner = UI[b]
            pool = [p['n'] for p in inner if p['k'] in ('po', 'pok', 'kwo')] + [alggen.FOREIGN]
            fl = flags(n=r2.choice([1, 2, 3, 3]), names=r2.sample(pool, r2.choice([0, 1, 1, 2]) if len(pool) >= 2 else 0), uva=r2.random() < .8, uvk=r2.random() < .8)
            placement = ['auto', 'auto_closure', 'auto_method', 'auto_attr'][k % 4]
            if k % nshards == shard:
                yield c04.prog_event('unhonourable/%d-%s' % (k, placement), UO[a], inner, fl, placement)

    def classify_retrieval(tid, clause, case):
        return 'C15_RetrievalDidNotFallBack' if clause == 'C07_RetrievalRaised' else 'IGNORE'
    run_trace_leg(check, scratch, 'retrieval-fallback', unhonourable, None, module='Trace_Exec', describe=c04.describe, classify=classify_retrieval)
    check.failures = [f for f in check.failures if f['key'] != 'IGNORE']
    check.cov['exhaustive'] = True
    check.cov['rule'] = ('all merge pairs and all embed pairs (default flags; other flag pairs sampled in quick) of the 220-signature universe, '
                         'seeded merge/embed triples, mask over every (n<=len+2, names<=2 incl. foreign and duplicate, hide flags sampled), '
                         'sampled forwards incl. partial and hide flags; %d seeded cases re-run with plain inspect inputs; distinct by (inputs, flags)' % len(twin))


def replay(check, case, scratch):
    cu = algebra.CaseUniverse()
    c = case['case']

    def gen(shard, nshards):
        if shard != 0:
            return
        fl = {k: v for k, v in (c.get('fl') or {}).items() if k in algebra.FLAGS0}
        if case['clause'].startswith('C15_PlainInputs'):
            U = c['ins']
            u = Universe(U)
            for e in plain_twin_events(u, U, [(c['op'], tuple(range(len(U))), flags(**fl))])(0, 1):
                e['tid'] = case['tid']
                yield e
        else:
            yield algebra.case_event(cu, case['tid'], c['op'], c['ins'], fl)
    run_trace_leg(check, scratch, 'replay', gen, WANT, nshards=1)
