"""C19 -- functools.partial objects get the signature Python actually enforces.

(M)  SigMachinePartial: MaskPartial (mask in partial mode) over universe x bindings: C19_Exact against PartialAccepts.
(T)  signatures.signature(partial(f, *a, **k)) and sigtools.signature(...) for every universe function x every (count, names)
     binding; each partial object is REALLY CALLED on every shape of the complete call set; TLC checks that the reported
     signature accepts exactly the non-colliding shapes the partial accepted, the structural claims (bound pok -> kwo with bound
     default, followers kwo, *args removed, absorbed keywords sourced to the partial, depths), and that PartialAccepts (the
     spec's reading of partial semantics) predicted the real partial.
"""
import functools
import itertools
import random

from .. import algebra, alggen, tlc, absig
from ..algebra import Universe, run_trace_leg, model_leg, event, flags
from .c20 import shapes_for

LEVEL = 'model_checking'
WANT = ['C19', 'C08', 'DRIFT']
S = object()


def bindings(ps, maxnames):
    npos = sum(1 for p in ps if p['k'] in ('po', 'pok'))
    pool = [p['n'] for p in ps if p['k'] not in ('var', 'vkw')] + [alggen.FOREIGN]
    for nb in range(npos + 2):
        for k in range(maxnames + 1):
            for names in itertools.combinations(pool, k):
                yield nb, list(names)


def partial_event(u, tid, f, ps, nb, names, route, nested=False):
    from sigtools import signatures, specifiers
    vals = {n: 10 + j for j, n in enumerate(names)}
    kw = {n: absig.DV[vals[n]] for n in names}
    # (through sigtools.signature the bound positionals are UNHASHABLE values -- lists: a bound value is data, nothing may rely on hashing it)
    pos = [[S] for _ in range(nb)] if route != 'plain' else [S] * nb
    if nested and (nb or names):
        p = functools.partial(functools.partial(f, *pos), **kw)
    else:
        p = functools.partial(f, *pos, **kw)
    u.fns.ids[u.fns._key(p)] = 'p1'
    fl = flags(n=nb, names=names, vals=vals, pobj='p1')
    sig = signatures.signature(f)
    getter = signatures.signature if route == 'plain' else specifiers.signature
    e = event(u, tid, 'partial', [sig], lambda: getter(p), fl=fl, plain=False,
              case={'op': 'partial', 'ins': [ps], 'fl': fl, 'route': route, 'nested': nested})
    realok = []
    for np_, kws in shapes_for(ps):
        try:
            p(*([S] * np_), **{k: S for k in kws})
            realok.append({'np': np_, 'kw': kws})
        except TypeError:
            pass
    e['realok'] = realok
    e['nparams_pos_removed'] = -1
    return e


def partial_events(u, U, maxnames, sample=1.0, seed=0):
    def gen(shard, nshards):
        rnd = random.Random(seed)
        k = 0
        for i, ps in enumerate(U):
            for nb, names in bindings(ps, maxnames):
                for route, nested in (('plain', False), ('forged', False), ('plain', True)):
                    if sample < 1.0 and rnd.random() >= sample:
                        continue
                    if k % nshards == shard:
                        yield partial_event(u, 'partial/%d-%d-%s-%s%d' % (i, nb, '.'.join(names), route, nested), u.func(i, 1), ps, nb, names, route, nested)
                    k += 1
    return gen


def run(check, tier, seed, scratch):
    quick = tier == 'quick'
    U = tlc.export_universe(scratch, 'ab', ['args'], ['kwargs'], 2) if quick else tlc.export_universe(scratch, 'abc', ['args'], ['kwargs'], 3)
    cex = model_leg(check, scratch, 'partial-U220', dict(Names=set('ab'), StarV={'args'}, StarK={'kwargs'}, MaxNamed=2, MaxNames=2), ['C19'],
                    module='SigMachinePartial')
    if not quick:
        cex += model_leg(check, scratch, 'partial-U1972', dict(Names=set('abc'), StarV={'args'}, StarK={'kwargs'}, MaxNamed=3, MaxNames=2), ['C19'],
                         module='SigMachinePartial', timeout=3000)
    check.cov['model_counterexamples'] = len(cex)
    u = Universe(U)

    def cexgen(shard, nshards):
        for t, (clause, case) in enumerate(cex):
            if t % nshards == shard:
                ps = case['ins'][0]
                yield partial_event(u, 'modelcex/%d' % t, absig.make_func(ps, name='f1'), ps, case['fl']['n'], list(case['fl']['names']), 'plain')
    # deeper signatures (4 named parameters: the positional buckets of _mask only interact with >= 2 positional-only AND >= 2 regular parameters)
    U4 = tlc.export_universe(scratch, 'abcd', ['args'], ['kwargs'], 4)
    rnd = random.Random(seed + 4)
    U4s = rnd.sample([ps for ps in U4 if sum(1 for p in ps if p['k'] in ('po', 'pok')) >= 3], 160 if quick else 4000)
    u4 = Universe(U4s)
    run_trace_leg(check, scratch, 'partial', alggen.chain(partial_events(u, U, 2, sample=0.6 if quick else 1.0, seed=seed),
                                                          partial_events(u4, U4s, 1, sample=0.5, seed=seed + 1), cexgen), WANT)
    # discovery THROUGH partial objects: "positionals resolve callee parameters, keywords do not" -- forwarding wrappers whose callee is a
    # parameter bound by the partial (auto_param) or a defaulted parameter the partial does not bind (auto_param_default), executed
    from . import c04
    U2 = tlc.export_universe(scratch, 'ab', ['args'], ['kwargs'], 2)
    UO = [ps for ps in U2 if alggen.has_star(ps)]
    UI = [c04.rename(ps, {'a': 'x', 'b': 'y'}) for ps in U2]

    def through_partial(shard, nshards):
        r2 = random.Random(seed + 31)
        for k in range(3000 if quick else 80000):
            a, b = r2.randrange(len(UO)), r2.randrange(len(UI))
            fl = dict(c04.written_flags(UO[a], UI[b], r2), partial=False)
            placement = ['auto_param', 'auto_param_default', 'auto_param_method', 'auto_param_nested', 'auto_partial_nothing'][k % 5]
            if k % nshards == shard:
                yield c04.prog_event('viapartial/%d-%s' % (k, placement), UO[a], UI[b], fl, placement)

    def classify_exec(tid, clause, case):
        return 'C19_DiscoveryThroughPartial:' + clause if clause[:3] in ('C04', 'C06', 'C07') else clause
    run_trace_leg(check, scratch, 'discovery-through-partial', through_partial, None, module='Trace_Exec', describe=c04.describe, classify=classify_exec)
    check.cov['exhaustive'] = not quick
    check.cov['rule'] = ('every function of the %d-signature universe x bound positional count 0..len+1 x bound keyword subsets (<=2, incl. a foreign name) x '
                         '{signatures.signature, sigtools.signature, nested partial}%s; each partial object really called on the complete call set; '
                         'plus %d seeded signatures with >= 3 positional parameters out of the %d-signature universe of <= 4 named parameters (bound keyword subsets <= 1); '
                         'distinct by (function, binding, route)' % (len(U), ' (seeded 60% sample)' if quick else '', len(U4s), len(U4)))
    check.assumptions += ['bindings whose keyword names a positional-only parameter are excluded (version-dependent)']


def replay(check, case, scratch):
    c = case['case']
    u = algebra.CaseUniverse()
    ps = c['ins'][0]

    def gen(shard, nshards):
        if shard == 0:
            yield partial_event(u, case['tid'], absig.make_func(ps, name='f1'), ps, c['fl']['n'], list(c['fl']['names']), c.get('route', 'plain'), c.get('nested', False))
    run_trace_leg(check, scratch, 'replay', gen, WANT, nshards=1)
