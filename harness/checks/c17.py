"""C17 -- concurrent signature retrieval gives the sequential answer.

(M)  spec/Retrieval.tla, concurrent configurations: 2 and 3 threads (retrievers on the same functools.wraps function, plain inspect.signature
     observers, threads asking inspect.signature for an as_forged object), one action per shared access in the code's order, ALL interleavings:
     C17_NothingLost and C16_Restored hold everywhere; C17_Sequential holds for the (thread-local) as_forged guard and is VIOLATED by the cleanup
     window (two retrievers, or a retriever and an observer) -- the design-level known finding window-race.
(T)  sched: a deterministic scheduler runs the real threads one at a time and switches only at line events inside the non-algebra sigtools files;
     every one-preemption schedule (thorough) / a seeded sample (quick) and seeded two-preemption schedules over 11 shared-object cases; plus
     randomized stress with sys.setswitchinterval(1e-6).  Hook events (window, guard) with thread ids in real order, results next to the result
     of each call run alone, attribute snapshots: the TLC monitor (Trace_Retrieval) checks every result is the sequential one, nothing is lost,
     every deletion is restored before its call ends.  A wrong answer while another thread's window was open is the known finding.
"""
import random

from .. import retrieval
from ..algebra import run_trace_leg

LEVEL = 'model_checking'


def classify(tid, clause, case):
    if clause == 'C17_NotSequential_WindowOpenElsewhere':
        return 'window-race'
    return clause


def stress_gen(rounds):
    def gen(shard, nshards):
        for k, (scen, calls) in enumerate(retrieval.SCHED_CASES):
            if k % nshards == shard:
                yield retrieval.stress_run('stress/%s-%s' % (scen, '+'.join(calls)), scen, calls, rounds)
    return gen


def chain(*gens):
    def gen(shard, nshards):
        for g in gens:
            for e in g(shard, nshards):
                yield e
    return gen


def run(check, tier, seed, scratch):
    quick = tier == 'quick'
    retrieval.model_runs(check, scratch, 'threads')
    n1, n2 = (150, 150) if quick else (None, 4000)
    run_trace_leg(check, scratch, 'schedules', chain(retrieval.sched_gen(seed, n1, n2, sweep_all=not quick), stress_gen(60 if quick else 1500)), None, module='Trace_Retrieval',
                  describe=retrieval.describe, classify=classify)
    check.cov['exhaustive'] = False
    check.cov['rule'] = ('%d shared-object cases (two retrievals of the same functools.wraps function; retrieval || inspect.signature; wraps chain; __signature__ attribute; two and '
                         'mixed inspect.signature on an as_forged object; emulated forger; modifiers-wrapped function; bound-method access || retrieval; wrappers.decorator; three threads), '
                         '%s one-preemption schedules and %d seeded two-preemption schedules per case at line granularity inside the non-algebra sigtools files, plus randomized stress; '
                         'and sweeps (one thread parked at 1/4, 1/2, 3/4 of its steps, the other preempted at EVERY step) over %d cases holding and dropping a cached bound wrapper%s; distinct by (case, schedule)' % (len(retrieval.SCHED_CASES), 'all' if n1 is None else '%d seeded' % n1, n2, len(retrieval.SWEEP_CASES), '' if quick else ' and over every case'))
    check.assumptions += ['preemption points are line events in _autoforwards/_specifiers/specifiers/_util/wrappers/modifiers outside the AST walker (which touches thread-local data only)',
                          'stress runs order only call start/end and the hook events']


def replay(check, case, scratch):
    c = case['case']

    def gen(shard, nshards):
        if shard == 0:
            if c['kind'] == 'stress':
                yield retrieval.stress_run(case['tid'], c['scenario'], c['calls'], 200)
            else:
                yield retrieval.sched_run(case['tid'], c['scenario'], c['calls'], [tuple(x) for x in c['schedule']])
    run_trace_leg(check, scratch, 'replay', gen, None, nshards=1, module='Trace_Retrieval', describe=retrieval.describe, classify=classify)
