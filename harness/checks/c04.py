"""C04 -- declared forwarding (forwards_to_*): the reported signature is safe to call.

(a) algebra.  (M) SigMachine Op = forwards: the composite soundness contract C04_ForwardsSound as invariant.
    (T) law, both sides real: forwards(outer, inner, n, *names, flags) = embed(outer, mask(inner, n, *names, flags)) in
    parameters AND provenance; C04_ForwardsSound evaluated on real forwards results (hide flags: covered by C03_HideSound).
(b) programs.  Every generated wrapper (outer from the star-bearing universe, inner from the universe over other names,
    written call shape (n, names, uva, uvk, partial), placement function / emulate / instance method / super /
    apply_forwards_to_super, bound and unbound) is decorated as declared, its signature retrieved through the real sigtools
    (and inspect.signature for emulate=True), and REALLY CALLED on every shape of the call set; TLC (Trace_Exec) checks
    accepted => runs, rejected => raises (when exactness is claimed), and that Wrappers!ExecOutcome predicted the real outcome.
"""
import inspect
import random

from .. import algebra, alggen, tlc, absig, progs
from ..algebra import Universe, run_trace_leg, model_leg, law_event, flags

LEVEL = 'model_checking'
WANT = ['C04', 'LAW', 'DRIFT']
PLACEMENTS = ['function', 'emulate', 'method', 'method_emulate', 'super', 'apply_super', 'method_unbound', 'super_unbound', 'emulate_sigattr']


def rename(ps, m):
    return [dict(p, n=m.get(p['n'], p['n'])) for p in ps]


def law_gen(uo, UO, ui, UI, sample, seed):
    from sigtools import signatures

    def gen(shard, nshards):
        rnd = random.Random(seed)
        k = 0
        for a in range(len(UO)):
            for b in range(len(UI)):
                if rnd.random() >= sample:
                    continue
                pool = [p['n'] for p in UI[b]] + [alggen.FOREIGN]
                n = rnd.randrange(3)
                names = rnd.sample(pool, rnd.randrange(min(3, len(pool) + 1)))
                fl = flags(n=n, names=names, uva=rnd.random() < .7, uvk=rnd.random() < .7, ha=rnd.random() < .15, hk=rnd.random() < .15)
                if k % nshards == shard:
                    o, i = uo.sig(a, 1), ui.sig(b, 2)
                    kw = dict(hide_args=fl['ha'], hide_kwargs=fl['hk'])
                    yield law_event(uo, 'fwdlaw/%d-%d-%d' % (a, b, k), 'C04_ForwardsIsEmbedOfMask',
                                    [lambda: algebra.apply_op('forwards', [o, i], fl),
                                     lambda: signatures.embed(o, signatures.mask(i, n, *names, **kw), use_varargs=fl['uva'], use_varkwargs=fl['uvk'])],
                                    cmp='all', case={'op': 'forwards', 'ins': [UO[a], UI[b]], 'fl': fl})
                k += 1
    return gen


def retrieve(thunk):
    from sigtools import signatures
    try:
        r = thunk()
    except signatures.IncompatibleSignatures:
        return {'tag': 'incompat'}
    except ValueError:
        return {'tag': 'valueerror'}
    except Exception as e:  # noqa
        return {'tag': 'other', 'exc': type(e).__name__}
    return {'tag': 'sig', 'ps': absig.project_params(r)}


def outcome_full(thunk, fns):
    """like retrieve(), with provenance"""
    from sigtools import signatures
    try:
        r = thunk()
    except signatures.IncompatibleSignatures:
        return {'tag': 'incompat'}
    except ValueError:
        return {'tag': 'valueerror'}
    except Exception as e:  # noqa
        return {'tag': 'other', 'exc': type(e).__name__}
    out = absig.project(r, fns)
    out['tag'] = 'sig'
    return out


def declared_thunk(w, inner, fl):
    from sigtools import specifiers
    return lambda: specifiers.forwards(w, inner, fl['n'], *fl['names'], use_varargs=fl['uva'], use_varkwargs=fl['uvk'],
                                       hide_args=fl['ha'], hide_kwargs=fl['hk'], partial=fl['partial'])


def prog_event(tid, o, i, fl, placement):
    import sigtools
    from sigtools import signatures
    base = placement.replace('_unbound', '')
    auto = base.startswith('auto')
    if base.startswith('auto_carrier'):
        fl = dict(fl, partial=False, n=0, names=[])      # nothing written: the swapped callee takes no arguments at all
    src = progs.render_forwarding(o, i, fl, base)
    g, fname = progs.compile_module(src)
    fns = absig.FnTable()
    declared = {'tag': 'none'}
    agree = 'none'
    try:
        unbound = placement.endswith('_unbound')
        inst = None
        eff_o = o
        skipexec = False
        starfree = False
        nomodel = False
        if base in ('function', 'emulate', 'emulate_sigattr', 'auto', 'auto_global', 'auto_closure', 'auto_attr', 'auto_attr2', 'auto_deco_noop'):
            fn = g['w']
            codes = {fn.__wrapped__.__code__} if base in ('emulate', 'emulate_sigattr') else {fn.__code__}
            plain_target = fn
            if auto:
                real_inner = g.get('inner_real', g['inner'])
                fns.add(fn, 'f1'); fns.add(real_inner, 'f2')
                declared, agree = outcome_full(declared_thunk(fn, real_inner, fl), fns), 'all'
        elif base == 'auto_wraps':
            fn, plain_target = g['w'], g['w_orig']
            codes = {g['w_orig'].__code__}      # the frame holding the forwarding call
            fns.add(g['w_orig'], 'f1'); fns.add(g['inner'], 'f2')
            # wrap-only decorator: the expected value is what the wrapped function itself declares
            declared, agree = outcome_full(declared_thunk(g['w_orig'], g['inner'], fl), fns), 'ps'
        elif base in ('auto_param', 'auto_param_method', 'auto_param_nested'):
            fn, plain_target = g['w'], g['w']
            w0 = g['K'].w0 if base == 'auto_param_method' else g['w0']
            codes = {w0.__code__}
            fns.add(w0, 'f1'); fns.add(g['inner'], 'f2')
            # "discovery looks through the partial using the bound arguments": the declaration equivalent to partial(w0, inner) /
            # partial(K().w0, inner) is forwards(w0, inner, ...) with the bound leading parameters (h / self and h) removed
            from sigtools import signatures as _s, specifiers as _sp
            declared = outcome_full(lambda: _s.mask(_sp.forwards(w0, g['inner'], fl['n'], *fl['names'], use_varargs=fl['uva'], use_varkwargs=fl['uvk'],
                                                                 hide_args=fl['ha'], hide_kwargs=fl['hk'], partial=fl['partial']), 1 if base == 'auto_param' else 2), fns)
            agree = 'ps'
        elif base == 'auto_partial_nothing':
            fn, plain_target = g['w'], g['w']
            codes = {g['w0'].__code__}
            fns.add(g['w0'], 'f1'); fns.add(g['inner'], 'f2')
            declared, agree = outcome_full(declared_thunk(g['w0'], g['inner'], fl), fns), 'ps'
        elif base == 'auto_relay':
            fn, plain_target = g['w'], g['w']
            codes = {fn.__code__, g['relay'].__code__}
            fns.add(fn, 'f1'); fns.add(g['inner'], 'f2')
            declared, agree = outcome_full(declared_thunk(fn, g['inner'], fl), fns), 'ps'
        elif base in ('auto_first_unresolvable', 'auto_first_incompatible'):
            fl = dict(fl, partial=False)
            src = progs.render_forwarding(o, i, fl, base)
            progs.drop_cache(fname)
            g, fname = progs.compile_module(src)
            fn, plain_target = g['w'], g['w']
            codes = {fn.__code__}
            nomodel = True
            # no explicit declaration is equivalent (one callee is not known / one forwards() raises): the plain signature is what remains
            declared, agree = {'tag': 'valueerror'}, 'ps'
        elif base in ('auto_loop_taint_after', 'auto_compr_shadow'):
            fl = dict(fl, partial=False)
            if not ((fl['uvk'] and any(p['k'] == 'vkw' for p in o)) or (fl['uva'] and any(p['k'] == 'var' for p in o))):
                fl = dict(fl, uva=True, uvk=True)
            src = progs.render_forwarding(o, i, fl, base)
            progs.drop_cache(fname)
            g, fname = progs.compile_module(src)
            fn, plain_target = g['w'], g['w']
            codes = {fn.__code__} | {c for c in fn.__code__.co_consts if hasattr(c, 'co_code')}
            nomodel = True
        elif base in ('auto_nested_def_own_stars', 'auto_nested_async_own_stars'):
            fn, plain_target = g['w'], g['w']
            codes = {fn.__code__}
            nomodel = True
            declared, agree = {'tag': 'valueerror'}, 'ps'       # nothing of the wrapper's is forwarded: the plain signature
        elif base == 'auto_class_call':
            fn, plain_target = g['K'], g['K']
            codes = {g['K'].__call__.__code__, g['K'].__init__.__code__}
            eff_o = []
            nomodel = True
        elif base == 'auto_hint':
            fn, plain_target = g['w'], g['w']
            codes = {g['w'].func.__code__}
            eff_o = progs.hint_effective(o)
            fns.add(fn, 'f1'); fns.add(g['inner'], 'f2')
            declared, agree = outcome_full(declared_thunk(fn, g['inner'], fl), fns), 'ps'
        elif base == 'auto_hint_partial':
            fn, plain_target = g['w'], g['w']
            codes = {g['w0'].func.__code__}
            eff_o = progs.hint_effective(o)
            fns.add(g['w0'], 'f1'); fns.add(g['inner'], 'f2')
            # the declaration equivalent to partial(w0, inner): forwards(w0, inner, ...) with the bound first parameter removed
            from sigtools import signatures as _s, specifiers as _sp
            declared = outcome_full(lambda: _s.mask(_sp.forwards(g['w0'], g['inner'], fl['n'], *fl['names'], use_varargs=fl['uva'], use_varkwargs=fl['uvk'],
                                                                 hide_args=fl['ha'], hide_kwargs=fl['hk'], partial=fl['partial']), 1), fns)
            agree = 'ps'
        elif base == 'auto_param_default':
            # the callee parameter keeps its default, which discovery must NOT take for a bound argument: the plain signature of the partial
            fn, plain_target = g['w'], g['w']
            codes = {g['w0'].__code__}
            declared, agree = {'tag': 'none'}, 'ps'
            eff_o = [{'n': 'h', 'k': 'pok', 'd': True, 'dv': 0, 'an': 0}] + [p for p in o if p['k'] in ('var', 'kwo', 'vkw')]
            skipexec = True
        else:
            K = g['K']
            raw = K.__dict__['w']
            code = getattr(raw, '__code__', None) or raw.__wrapped__.__code__
            codes = {code}
            inst = K()
            if unbound:
                fn = K.w
                eff_o = progs.with_self(o)
            else:
                fn = inst.w
            plain_target = fn
            if base == 'auto_method':
                declared, agree = outcome_full(declared_thunk(inst.w, inst.inner, fl), fns), 'ps'
            if base.startswith('auto_carrier'):
                codes = {code, g['run'].__code__}
                # all that can be said: the wrapper forwards to run, whose own callee is not known (run's plain signature)
                declared, agree = outcome_full(declared_thunk(inst.w, g['run'], dict(fl, n=fl['n'] + 1)), fns), 'ps'
                starfree = True      # what the swapped callee accepts is, by construction, not what anything visible says
        reported = outcome_full(lambda: sigtools.signature(fn), fns)
        others = [retrieve(lambda: sigtools.signature(fn, auto=False))] if not (unbound or auto) else []
        if 'emulate' in base:
            others.append(retrieve(lambda: signatures.UpgradedSignature._upgrade(inspect.signature(fn), None, {})))
        plain = outcome_full(lambda: signatures.signature(plain_target), fns)
        names = [n for n in progs.named_names(eff_o, i) if n != 'self'] + [alggen.FOREIGN]
        maxpos = progs.npos(eff_o) + progs.npos(i) + 1 + fl['n']
        if skipexec:
            # the callee parameter h must keep its default to be callable: only calls that do not touch it are executed
            names = [n for n in names if n != 'h']
            maxpos = 0
        bo, bi, other = progs.execute(fn, names, maxpos, codes, first=inst if unbound else None)
    finally:
        progs.drop_cache(fname)
    return {'tid': tid, 'op': 'fwdprog', 'o': eff_o, 'i': i, 'fl': fl, 'bound': False, 'reported': reported, 'others': others, 'plain': plain,
            'allow_fallback': unbound or auto, 'auto': auto, 'declared': declared, 'agree': agree,
            'bad_outer': bo, 'bad_inner': bi, 'other_exc': other, 'placement': placement, 'maxpos': maxpos, 'kwpool': names, 'skipexec': skipexec, 'starfree_only': starfree, 'nomodel': nomodel,
            'case': {'o': o, 'i': i, 'fl': fl, 'placement': placement, 'src': src}}


def written_flags(o, i, rnd):
    pool = [p['n'] for p in i if p['k'] in ('pok', 'kwo')] + [alggen.FOREIGN]
    names = rnd.sample(pool, rnd.choice([0, 0, 1, 1, 2]) if len(pool) >= 2 else rnd.randrange(len(pool) + 1))
    return flags(n=rnd.choice([0, 0, 1, 2]), names=names, uva=rnd.random() < .8, uvk=rnd.random() < .8, partial=rnd.random() < .12)


def prog_gen(UO, UI, nprog, seed, UIsame=None):
    """UIsame: the callee universe with the wrapper's OWN names (a, b): wrapper and callee may then declare a same-named parameter,
    which forwards must refuse (no signature could say which of the two a keyword reaches)"""
    def gen(shard, nshards):
        rnd = random.Random(seed)
        for k in range(nprog):
            a, b = rnd.randrange(len(UO)), rnd.randrange(len(UI))
            if UIsame is not None and rnd.random() < 0.2:
                UIk = UIsame
            else:
                UIk = UI
            fl = written_flags(UO[a], UIk[b], rnd)
            placement = PLACEMENTS[k % len(PLACEMENTS)]
            if placement == 'apply_super' and fl['partial']:
                fl = dict(fl, partial=False, n=0, names=[])      # nothing written: the swapped callee takes no arguments at all
            if k % nshards == shard:
                yield prog_event('prog/%d-%d-%d-%s%s' % (k, a, b, placement, '-samenames' if UIk is UIsame else ''), UO[a], UIk[b], fl, placement)
    return gen


def describe(e, case):
    import json
    key = json.dumps([e['o'], e['i'], e['fl'], e['placement']], sort_keys=True)
    rep = absig.sig_str(e['reported']['ps']) if e['reported']['tag'] == 'sig' else e['reported']['tag']
    text = '%s: def w%s forwarding %s to inner%s -> reported %s; %d shapes raised at outer, %d at inner' % (
        e['placement'], absig.sig_str(e['o']), {k: v for k, v in e['fl'].items() if algebra.FLAGS0.get(k) != v}, absig.sig_str(e['i']), rep,
        len(e['bad_outer']), len(e['bad_inner']))
    return key, not (e['o'] or e['i']), text


def classify(tid, clause, case):
    return clause


def run(check, tier, seed, scratch):
    quick = tier == 'quick'
    U2 = tlc.export_universe(scratch, 'ab', ['args'], ['kwargs'], 2)
    UO = [ps for ps in U2 if alggen.has_star(ps)]
    UI = [rename(ps, {'a': 'x', 'b': 'y'}) for ps in U2]
    # (a) model + law
    base = dict(StarV={'args'}, StarK={'kwargs'}, Names=set('ab'), Op='forwards', Arity=2, MaxN=1, MaxNamesLen=1, HideFlags=False)
    cex = model_leg(check, scratch, 'forwards-U(<=1 named)', dict(base, MaxNamed=1), ['C04'])
    cex += model_leg(check, scratch, 'forwards-U220-sim', dict(base, MaxNamed=2), ['C04'], simulate='num=%d' % (4000 if quick else 100000), depth=4, seed=seed + 1)
    check.cov['model_counterexamples'] = len(cex)
    uo, ui, u2, cu = Universe(UO), Universe(UI), Universe(U2), algebra.CaseUniverse()
    gens = [law_gen(uo, UO, ui, UI, 0.35 if quick else 1.0, seed), law_gen(uo, UO, u2, U2, 0.1 if quick else 1.0, seed + 1),
            alggen.forwards_events(uo, UO, ui, UI, sample=0.012 if quick else 0.3, seed=seed),
            alggen.cex_events(cu, 'forwards', cex)]
    run_trace_leg(check, scratch, 'forwards-algebra', alggen.chain(*gens), WANT)
    # (b) executed programs
    nprog = 16000 if quick else 400000
    run_trace_leg(check, scratch, 'programs', prog_gen(UO, UI, nprog, seed, UIsame=U2), None, module='Trace_Exec', describe=describe, classify=classify)
    check.cov['exhaustive'] = False
    check.cov['programs'] = nprog
    check.cov['rule'] = ('(a) forwards = embed o mask on seeded (outer, inner, n, names, flags) cases over star-bearing outers x inners with disjoint '
                         'and with shared names, and the composite soundness contract on real forwards results; (b) %d seeded programs: outer from the '
                         '%d star-bearing signatures, inner from the 220-signature universe over other names, written call (n<=2, <=2 names, use flags, '
                         'partial), 9 placements (function, emulate, emulate over a wrapper that already has __signature__, method, method+emulate, super, apply_forwards_to_super, unbound method/super), '
                         'each really called on every shape of the call set; distinct by (outer, inner, flags, placement)' % (nprog, len(UO)))
    check.assumptions += ['programs with hide_* flags are decided algebraically (C03_HideSound + embed), not by execution: the hidden arguments are unknown by definition',
                          'call shapes repeating a keyword the wrapper itself writes are excluded (no signature can express them), as in C03',
                          'unbound access of a method declared with forwards_to_method/_super: the declaration needs an instance, the documented result is the plain signature (accepted as fallback, as in C05)']


def replay(check, case, scratch):
    c = case['case']
    if 'placement' in c:
        def gen(shard, nshards):
            if shard == 0:
                yield prog_event(case['tid'], c['o'], c['i'], c['fl'], c['placement'])
        run_trace_leg(check, scratch, 'replay', gen, None, nshards=1, module='Trace_Exec', describe=describe, classify=classify)
    else:
        from sigtools import signatures
        cu = algebra.CaseUniverse()

        def gen(shard, nshards):
            if shard != 0:
                return
            fl = flags(**{k: v for k, v in (c.get('fl') or {}).items() if k in algebra.FLAGS0})
            if case['clause'] == 'C04_ForwardsIsEmbedOfMask':
                fs = [absig.make_func(ps, name='f%d' % (k + 1)) for k, ps in enumerate(c['ins'])]
                o, i = [signatures.signature(f) for f in fs]
                kw = dict(hide_args=fl['ha'], hide_kwargs=fl['hk'])
                yield law_event(cu, case['tid'], 'C04_ForwardsIsEmbedOfMask',
                                [lambda: algebra.apply_op('forwards', [o, i], fl),
                                 lambda: signatures.embed(o, signatures.mask(i, fl['n'], *fl['names'], **kw), use_varargs=fl['uva'], use_varkwargs=fl['uvk'])],
                                cmp='all', case=c)
            else:
                yield algebra.case_event(cu, case['tid'], 'forwards', c['ins'], fl)
        run_trace_leg(check, scratch, 'replay', gen, WANT, nshards=1)
