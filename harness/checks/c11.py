"""C11 -- postponed (PEP 563) annotations resolve in their defining context throughout.

The annotation of an abstract parameter is, for this check, the DENOTATION id: the object the annotation text denotes in the globals of
the function that defined it.  Inputs carry it by construction (the harness knows which object each function's globals bind A1 / A2 to),
outputs through upgraded_annotation.source_value() of the real result.  With that projection the metadata contract of C10 -- the combined
parameter's annotation is the one all annotated contributors AGREE ON, otherwise none; survivors keep theirs -- says exactly what C11
demands of merge / embed / mask / forwards, also when functions whose globals bind the same name to different objects are combined.
(M)  SigMachine over the metadata universe (annotation ids = denotations): C10_MergeMeta / EmbedMeta / MaskMeta as invariants.
(T)  functions compiled with `from __future__ import annotations` and eagerly, with shared and with per-function globals (identically
     spelled names bound to different objects); merge pairs and triples, embed, mask, forwards, partial, discovery through a wrapper,
     modifiers (kwoargs/posoargs/annotate); TLC evaluates the C10 annotation clauses on denotations, that evaluated() agrees with
     source_value(), that results computed on postponed functions and then evaluated() equal the results on eager twins, and that
     values given to modifiers.annotate come back verbatim.
"""
import functools
import random
import warnings

from .. import algebra, alggen, tlc, absig
from ..algebra import run_trace_leg, model_leg, flags

LEVEL = 'model_checking'
WANT = ['C10', 'LAW']
RENAME = {'C10_Annotation': 'C11_AnnotationNotTheAgreedDenotation', 'C10_OuterMetaKept': 'C11_OuterAnnotationNotKept',
          'C10_InnerMetaKept': 'C11_InnerAnnotationNotKept', 'C10_MaskMetaKept': 'C11_MaskAnnotationNotKept',
          'C10_PartialOthersKept': 'C11_PartialAnnotationNotKept'}


MODULE_OF = {1: 1, 2: 2, 3: 1}       # 'modules' mode: the first and the third function live in one module (ONE globals dict), the second in another


def denote(slot, a, per_function):
    if not a:
        return 0
    if per_function == 'modules':
        return 10 * MODULE_OF.get(slot, slot) + a
    if per_function == 'aliases':
        return a                   # every function spells it differently, all spellings denote the same object
    return 10 * slot + a if per_function else a


class AnnWorld:
    """real functions for abstract signatures, compiled eagerly or with the future flag, with shared globals bindings, per-function
    globals, or two modules (per_function == 'modules')"""

    def __init__(self, future, per_function):
        self.future, self.per_function = future, per_function
        self.cache = {}
        self.modules = {}

    def func(self, ps, slot, ret=None):
        if self.per_function == 'modules':
            m = MODULE_OF.get(slot, slot)
            g = self.modules.setdefault(m, {'A%d' % a: absig.AN[10 * m + a] for a in (1, 2)})
            return absig.make_func(ps, name='f%d' % slot, future=self.future, ret=ret, share_globals=g)
        if self.per_function == 'aliases':
            # own globals per function; annotation i is spelled A<i + 2*(slot-1)> there and bound to the SAME object in all of them
            off = 2 * (slot - 1)
            g = {'A%d' % (a + off): absig.AN[a] for a in (1, 2)}
            ps = [dict(p, an=p['an'] + off) if p['an'] else p for p in ps]
            return absig.make_func(ps, name='f%d' % slot, extra_globals=g, future=self.future, ret=('A%d' % (int(ret[1:]) + off) if ret else None))
        g = {'A%d' % a: absig.AN[denote(slot, a, self.per_function)] for a in (1, 2)}
        if ret:
            return absig.make_func(ps, name='f%d' % slot, extra_globals=g, future=self.future, ret=ret)
        # the defining context is the function's OWN globals: give it the __name__ of a loaded module that binds none of these names
        # (code exec'd into a namespace, a function kept after its module was re-imported)
        if self.per_function and slot % 2 == 0:
            g['__name__'] = 'json'
        return absig.make_func(ps, name='f%d' % slot, extra_globals=g, future=self.future)

    def truth(self, ps, slot):
        return [dict(p, an=denote(slot, p['an'], self.per_function)) for p in ps]


def sv_id(ann):
    try:
        v = ann.source_value()
    except Exception:  # noqa
        return 98
    return absig.an_id(v)


def project_sv(sig):
    ps = absig.project_params(sig)
    for q, p in zip(ps, sig.parameters.values()):
        q['an'] = sv_id(p.upgraded_annotation)
    return ps


def project_ev(sig):
    try:
        ev = sig.evaluated()
    except Exception:  # noqa
        return [dict(p, an=98) for p in absig.project_params(sig)]
    return absig.project_params(ev)


def fn_id(obj):
    return getattr(obj, '__name__', 'x')


class _F:
    def get(self, obj):
        return fn_id(obj)


def ann_event(tid, w, op, pss, fl, thunk_of):
    """pss: abstract parameter lists (an in {0,1,2} = annotation text); runs op on real functions of world w"""
    from sigtools import signatures
    fs = [w.func(ps, k + 1) for k, ps in enumerate(pss)]
    sigs = [signatures.signature(f) for f in fs]
    ins = []
    for k, (ps, s) in enumerate(zip(pss, sigs)):
        a = absig.project(s, _F())
        a['ps'] = w.truth(ps, k + 1)                     # denotations by construction
        ins.append(a)
    try:
        with warnings.catch_warnings():
            warnings.simplefilter('ignore')
            r = thunk_of(sigs, fs)
    except signatures.IncompatibleSignatures:
        out, outev = {'tag': 'incompat'}, None
    except ValueError:
        out, outev = {'tag': 'valueerror'}, None
    except Exception as e:  # noqa
        out, outev = {'tag': 'other', 'exc': type(e).__name__}, None
    else:
        out = absig.project(r, _F())
        out['ps'] = project_sv(r)
        out['tag'] = 'sig'
        out['upgraded'] = True
        outev = project_ev(r)
    fl = flags(**fl)
    case = {'op': op, 'ins': pss, 'fl': fl, 'future': w.future, 'per_function': w.per_function, 'ins_d': [a['ps'] for a in ins]}
    yield {'tid': tid, 'op': op, 'ins': ins, 'flags': fl, 'out': out, 'plain': True, 'case': case}
    if outev is not None:
        yield {'tid': tid + '/ev', 'op': 'law', 'law': 'C11_EvaluatedDiffersFromSourceValue', 'cmp': 'ps', 'pre': 'none', 'side': True, 'ins': [],
               'results': [{'tag': 'sig', 'ps': out['ps']}, {'tag': 'sig', 'ps': outev}], 'case': case}


OPS = {
    'merge': lambda fl: (lambda sigs, fs: __import__('sigtools').signatures.merge(*sigs)),
    'embed': lambda fl: (lambda sigs, fs: __import__('sigtools').signatures.embed(*sigs, use_varargs=fl['uva'], use_varkwargs=fl['uvk'])),
    'mask': lambda fl: (lambda sigs, fs: __import__('sigtools').signatures.mask(sigs[0], fl['n'], *fl['names'])),
    'forwards': lambda fl: (lambda sigs, fs: __import__('sigtools').signatures.forwards(sigs[0], sigs[1], fl['n'], *fl['names'], use_varargs=fl['uva'], use_varkwargs=fl['uvk'])),
}


def twin_event(tid, op, pss, fl, per_function):
    """the same computation on postponed functions (then evaluated()) and on eager twins"""
    res = []
    for future in (True, False):
        w = AnnWorld(future, per_function)
        for e in ann_event('x', w, op, pss, fl, OPS[op](flags(**fl))):
            if e['op'] != 'law':
                out = e['out']
                res.append({'tag': out['tag'], 'ps': out.get('ps', [])})
    return {'tid': tid, 'op': 'law', 'law': 'C11_PostponedThenEvaluatedDiffersFromEagerTwin', 'cmp': 'ps', 'pre': 'none', 'side': True, 'ins': [], 'results': res,
            'case': {'op': op, 'ins': pss, 'fl': flags(**fl), 'per_function': per_function, 'twin': True}}


def annotate_event(tid, ps, future, rnd):
    """values given to modifiers.annotate are reported verbatim, whatever the mode of the decorated function"""
    from sigtools import modifiers, signatures
    import sigtools
    w = AnnWorld(future, True)
    own_ret = rnd.random() < 0.5          # the function has a return annotation of its own and annotate() is given parameters only
    f = w.func(ps, 1, ret='A2' if own_ret else None)
    named = [p['n'] for p in ps if p['k'] not in ('var', 'vkw')]
    chosen = rnd.sample(named, rnd.randrange(1, len(named) + 1)) if named else []
    vals = {n: absig.AN[30 + k] for k, n in enumerate(chosen)}
    strs = {}
    for n in chosen:
        if rnd.random() < 0.35:        # a string value: verbatim too, whatever the compilation mode of the decorated function
            vals[n] = rnd.choice(sorted(absig.STR_ANN))
            strs[n] = absig.STR_ANN[vals[n]]
    ret = absig.AN[38]
    wantret = denote(1, 2, True) if own_ret else 38
    try:
        d = modifiers.annotate(**vals)(f) if own_ret else modifiers.annotate(ret, **vals)(f)
        s = sigtools.signature(d)
        got = project_sv(s)
        gotret = sv_id(s.upgraded_return_annotation)
        tag = 'sig'
    except Exception as e:  # noqa
        got, gotret, tag = [], 0, 'other'
    want = [dict(p, an=(strs.get(p['n'], 30 + chosen.index(p['n'])) if p['n'] in chosen else denote(1, p['an'], True))) for p in ps]
    return {'tid': tid, 'op': 'law', 'law': 'C11_AnnotateValuesNotVerbatim', 'cmp': 'ps', 'pre': 'none', 'side': gotret == wantret, 'ins': [],
            'results': [{'tag': 'sig', 'ps': want}, {'tag': tag, 'ps': [dict(q, dv=p['dv']) for q, p in zip(got, ps)] if tag == 'sig' else []}],
            'case': {'op': 'annotate', 'ins': [ps], 'future': future, 'chosen': chosen}}


def annotate_forwarding_event(tid, ps, future, rnd):
    """the same when the decorated function FORWARDS its star parameters (automatic discovery looks at it): the values given to annotate
    for its own parameters and for the return annotation are still reported, verbatim"""
    from sigtools import modifiers
    import sigtools
    va = next((p['n'] for p in ps if p['k'] == 'var'), None)
    vk = next((p['n'] for p in ps if p['k'] == 'vkw'), None)
    call = 'return TARGET_(%s)' % ', '.join(x for x in ('*' + va if va else None, '**' + vk if vk else None) if x)

    def target_(q1=None, *, q2=None):
        return None
    g = {'A%d' % a: absig.AN[10 + a] for a in (1, 2)}
    g['TARGET_'] = target_
    f = absig.make_func(ps, name='f1', extra_globals=g, future=future, body=call, register_source=True)
    named = [p['n'] for p in ps if p['k'] not in ('var', 'vkw')]
    chosen = rnd.sample(named, rnd.randrange(1, len(named) + 1)) if named else []
    vals = {n: absig.AN[30 + k] for k, n in enumerate(chosen)}
    try:
        d = modifiers.annotate(absig.AN[38], **vals)(f)
        s = sigtools.signature(d)
        got = {q['n']: q['an'] for q in project_sv(s)}
        gotret = sv_id(s.upgraded_return_annotation)
        tag = 'sig'
    except Exception as e:  # noqa
        got, gotret, tag = {}, 0, 'other'
    own = [p for p in ps if p['k'] not in ('var', 'vkw')]
    want = [dict(p, an=(30 + chosen.index(p['n']) if p['n'] in chosen else denote(1, p['an'], True)), d=False, dv=0, k='pok') for p in own]
    res = [dict(p, an=got.get(p['n'], -1)) for p in want]
    return {'tid': tid, 'op': 'law', 'law': 'C11_AnnotateValuesNotVerbatim', 'cmp': 'ps', 'pre': 'none', 'side': gotret == 38, 'ins': [],
            'results': [{'tag': 'sig', 'ps': want}, {'tag': tag, 'ps': res if tag == 'sig' else []}],
            'case': {'op': 'annotate-forwarding', 'ins': [ps], 'future': future, 'chosen': chosen}}


def wraps_event(tid, ps, inner_future, wrapper_future):
    """a functools.wraps wrapper defined in OTHER globals (and possibly compiled the other way) than the function it wraps: the signature read
    through __wrapped__ carries the wrapped function's annotations, which denote what they denote where THAT function was defined"""
    import functools
    from sigtools import signatures
    gi = {'A%d' % a: absig.AN[10 + a] for a in (1, 2)}
    inner = absig.make_func(ps, name='f1', extra_globals=gi, future=inner_future, ret='A2')
    gw = {'A%d' % a: absig.AN[20 + a] for a in (1, 2)}          # the same spellings denote other objects around the wrapper
    gw['inner_'] = inner
    gw['functools'] = functools
    w = absig.make_func([{'n': 'args', 'k': 'var', 'd': False, 'dv': 0, 'an': 0}, {'n': 'kwargs', 'k': 'vkw', 'd': False, 'dv': 0, 'an': 0}], name='f2',
                        extra_globals=gw, future=wrapper_future, body='return inner_(*args, **kwargs)')
    w = functools.wraps(inner)(w)
    want = [dict(p, an=(10 + p['an'] if p['an'] else 0)) for p in ps]
    try:
        sg = signatures.signature(w)
        got, gotret, tag = project_sv(sg), sv_id(sg.upgraded_return_annotation), 'sig'
        try:
            ev = absig.project_params(sg.evaluated())
        except Exception:  # noqa
            ev = []
    except Exception as e:  # noqa
        got, gotret, tag, ev = [], 0, 'other', []
    return {'tid': tid, 'op': 'law', 'law': 'C11_AnnotationsThroughWrapsNotTheWrappedFunctions', 'cmp': 'ps', 'pre': 'none', 'side': gotret == 12 and ev == want, 'ins': [],
            'results': [{'tag': 'sig', 'ps': want}, {'tag': tag, 'ps': got}],
            'case': {'op': 'wraps', 'ins': [ps], 'inner_future': inner_future, 'wrapper_future': wrapper_future}}


def partial_preset_event(tid, ps, inner_future, outer_future, rnd):
    """a partial object holding a keyword that names an annotated parameter which is NOT its function's own: the function forwards **kwargs
    to a callee defined in other globals; the keyword-only parameter shown for it carries the callee's annotation, denoting what it denotes there"""
    import functools
    import sigtools
    cands = [p for p in ps if p['k'] in ('pok', 'kwo') and p['an']]
    if not cands:
        return None
    target = rnd.choice(cands)
    gi = {'A%d' % a: absig.AN[10 + a] for a in (1, 2)}
    inner = absig.make_func(ps, name='f1', extra_globals=gi, future=inner_future)
    go = {'A%d' % a: absig.AN[20 + a] for a in (1, 2)}
    go['inner_'] = inner
    outer = absig.make_func([{'n': 'args', 'k': 'var', 'd': False, 'dv': 0, 'an': 0}, {'n': 'kwargs', 'k': 'vkw', 'd': False, 'dv': 0, 'an': 0}], name='f2',
                            extra_globals=go, future=outer_future, body='return inner_(*args, **kwargs)', register_source=True)
    p = functools.partial(outer, **{target['n']: 5})
    want = [{'n': target['n'], 'k': 'kwo', 'd': True, 'dv': 0, 'an': 10 + target['an']}]
    try:
        sg = sigtools.signature(p)
        got = [dict(q, dv=0) for q in project_sv(sg) if q['n'] == target['n']]
        tag = 'sig'
    except Exception as e:  # noqa
        got, tag = [], 'other'
    if tag == 'sig' and not got:
        return None           # discovery fell back (allowed): nothing is shown for the keyword
    return {'tid': tid, 'op': 'law', 'law': 'C11_PartialPresetAnnotationNotTheCallees', 'cmp': 'ps', 'pre': 'none', 'side': True, 'ins': [],
            'results': [{'tag': 'sig', 'ps': want}, {'tag': tag, 'ps': got}],
            'case': {'op': 'partial-preset', 'ins': [ps], 'inner_future': inner_future, 'outer_future': outer_future, 'name': target['n']}}


def gen(UM, seed, n):
    def g(shard, nshards):
        rnd = random.Random(seed)
        k = 0
        for _ in range(n):
            op = rnd.choice(['merge', 'merge', 'merge3', 'embed', 'mask', 'forwards'])
            future, per_function = rnd.random() < 0.75, rnd.choice([True, True, 'modules', 'modules', False, 'aliases'])
            ar = {'merge': 2, 'merge3': 3, 'embed': 2, 'mask': 1, 'forwards': 2}[op]
            pss = [UM[rnd.randrange(len(UM))] for _ in range(ar)]
            if op == 'forwards' and not alggen.has_star(pss[0]):
                continue
            fl = {}
            if op == 'embed' or op == 'forwards':
                fl = dict(uva=rnd.random() < 0.8, uvk=rnd.random() < 0.8)
            if op in ('mask', 'forwards'):
                pool = [p['n'] for p in pss[-1] if p['k'] in ('pok', 'kwo')]
                fl.update(n=rnd.choice([0, 0, 1]), names=rnd.sample(pool, 1) if pool and rnd.random() < 0.3 else [])
            rop = 'merge' if op == 'merge3' else op
            if k % nshards == shard:
                w = AnnWorld(future, per_function)
                for e in ann_event('ann/%d' % k, w, rop, pss, fl, OPS[rop](flags(**fl))):
                    yield e
                if k % 3 == 0:
                    yield twin_event('twin/%d' % k, rop, pss, fl, per_function)
                if k % 5 == 0:
                    yield annotate_event('annot/%d' % k, pss[0], future, random.Random(k))
                if k % 7 == 3:
                    e = partial_preset_event('preset/%d' % k, pss[0], bool(k % 2), bool((k // 2) % 2), random.Random(k))
                    if e is not None:
                        yield e
                if k % 7 == 2:
                    yield wraps_event('wraps/%d' % k, pss[0], bool(k % 2), bool((k // 2) % 2))
                if k % 5 == 1 and alggen.has_star(pss[0]) and any(p['k'] not in ('var', 'vkw') for p in pss[0]):
                    yield annotate_forwarding_event('annotfwd/%d' % k, pss[0], future, random.Random(k))
            k += 1
    return g


def classify(tid, clause, case):
    if clause == 'C10_Annotation':
        from . import c10
        # the n-ary fold forgets a conflict between annotated contributors (known finding D22, shared with C10): same structural key
        if isinstance(case, dict) and 'ins_d' in case and c10.classify(tid, clause, dict(case, ins=case['ins_d'])) == 'nary-annotation-conflict-forgotten':
            return 'nary-annotation-conflict-forgotten'
    return RENAME.get(clause, clause)


def run(check, tier, seed, scratch):
    quick = tier == 'quick'
    DV, AN = [2], [0, 1, 2]
    UM = tlc.export_universe(scratch, 'ab', ['args'], ['kwargs'], 2, dvs=DV, ans=AN)
    base = dict(StarV={'args'}, StarK={'kwargs'}, Names=set('ab'), MaxN=1, MaxNamesLen=1, HideFlags=False, DVs=set(DV), ANs=set(AN))
    for op, ar in (('merge', 2), ('embed', 2), ('mask', 1)):
        model_leg(check, scratch, '%s-meta(<=1 named)' % op, dict(base, MaxNamed=1, Op=op, Arity=ar), ['C10'])
    n = 12000 if quick else 400000
    res = run_trace_leg(check, scratch, 'annotations', gen(UM, seed, n), WANT, classify=classify)
    # clauses of C10 that are not about annotations belong to check C10
    keep = set(RENAME.values())
    check.failures = [f for f in check.failures if f['clause'].startswith('C11') or f['key'] in keep or f['clause'] in RENAME or f['key'] == 'nary-annotation-conflict-forgotten']
    check.cov['exhaustive'] = False
    check.cov['rule'] = ('%d seeded cases over the %d-signature metadata universe (annotation text none / A1 / A2 on every named parameter): merge pairs and triples, embed, mask, forwards; '
                         '75%% compiled with the future flag, 75%% with per-function globals binding A1 / A2 to different objects; every third case also as eager/postponed twins, every fifth '
                         'with modifiers.annotate' % (n, len(UM)))
    check.assumptions += ['annotation ids in events are denotations: inputs by construction (the harness knows each function\'s globals), outputs through source_value() of the real result']


def replay(check, case, scratch):
    c = case['case']

    def g(shard, nshards):
        if shard != 0:
            return
        if c.get('twin'):
            yield twin_event(case['tid'], c['op'], c['ins'], {k: v for k, v in c['fl'].items() if k in ('uva', 'uvk', 'n', 'names')}, c['per_function'])
        elif c['op'] == 'partial-preset':
            e = partial_preset_event(case['tid'], c['ins'][0], c['inner_future'], c['outer_future'], random.Random(int(case['tid'].split('/')[1])))
            if e is not None:
                yield e
        elif c['op'] == 'wraps':
            yield wraps_event(case['tid'], c['ins'][0], c['inner_future'], c['wrapper_future'])
        elif c['op'] == 'annotate-forwarding':
            yield annotate_forwarding_event(case['tid'], c['ins'][0], c['future'], random.Random(int(case['tid'].split('/')[1])))
        elif c['op'] == 'annotate':
            yield annotate_event(case['tid'], c['ins'][0], c['future'], random.Random(int(case['tid'].split('/')[1])))
        else:
            w = AnnWorld(c['future'], c['per_function'])
            fl = {k: v for k, v in c['fl'].items() if k in ('uva', 'uvk', 'n', 'names')}
            for e in ann_event(case['tid'].replace('/ev', ''), w, c['op'], c['ins'], fl, OPS[c['op']](flags(**fl))):
                yield e
    run_trace_leg(check, scratch, 'replay', g, WANT, nshards=1, classify=classify)
