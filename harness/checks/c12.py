"""C12 -- kwoargs / posoargs / autokwoargs: the advertised signature equals the call behaviour.

(M)  spec/Modifiers.tla: pick a base function, a decorator form (explicit names -- also stacked --, start=, end=, exceptions=) and its
     selection, pick a call.  Invariants: _prepare raises exactly on inadmissible selections (PrepareIffAdmissible), advertises the
     rewrite the property demands (PrepareIsRewrite), and ROUTING THE CALL through the args.insert loop of __call__ and binding to the
     original function delivers exactly what binding to the advertised signature prescribes (RouteIsBind) -- every explored
     (base, selection, call) is one implementation test.
(T)  the same space on the real decorators: every base function of the universe (with distinct defaults and annotations per parameter),
     as function and as method called on an instance, every selection of <= 2 names per decorator over its parameter names, its star
     names and a foreign name, sampled stacked / start= / end= selections, all exceptions= subsets; each admissible one retrieved through
     four routes and really called on EVERY shape of the complete call set with distinguishable values.  TLC (Trace_Modifiers) checks
     admissibility, the advertised rewrite, accepted <=> binds, full delivery map, TypeError on rejection; and, as drift, that the
     transcription of _prepare/__call__ predicted each outcome.
"""
import random

from .. import algebra, tlc, modif
from ..algebra import run_trace_leg

LEVEL = 'model_checking'
INVS = ['PrepareIffAdmissible', 'PrepareIsRewrite', 'RouteIsBind', 'FormsSelectPok', 'OrderIndependent']


def model(check, scratch, names, maxnamed, maxsel, tag):
    d = scratch.sub('modifiers-model')
    cfg = tlc.write_cfg(d + '/Modifiers.cfg', spec='Spec', constants=dict(Names=set(names), MaxNamed=maxnamed, MaxSel=maxsel), invariants=INVS)
    r = tlc.run_tlc('Modifiers', cfg, scratch, workers=tlc.NCPU, timeout=3000, xmx='12g', coverage=True)
    check.add_model_run(tag, r)
    if r.invariants_violated:
        check.error('Modifiers model: invariant(s) violated: %s\n%s' % (r.invariants_violated, r.out[-1500:]))


def gen_for(U, seed, frac, want_forms=None):
    def gen(shard, nshards):
        rnd = random.Random(seed)
        k = 0
        for i, ps in enumerate(U):
            for j, sel in enumerate(modif.selections(ps, False, rnd)):
                bound = (i + j) % 3 == 0
                if bound and sel.get('po') and sel['form'] == 'names':
                    sel = dict(sel, po=['self'] + [n for n in sel['po'] if n != 'self'])
                elif bound and sel.get('kwo') and sel['form'] == 'names' and not sel.get('po') and (i + j) % 2 == 0:
                    # a keyword-only selection that names the parameter receiving the instance: binding consumes it
                    sel = dict(sel, kwo=['self'] + sel['kwo'])
                elif bound and sel['form'] == 'end' and not sel.get('extra') and (i + j) % 2 == 0:
                    # posoargs(end=<the parameter receiving the instance>): nothing is left to convert at the bound level
                    sel = dict(sel, s='self')
                elif bound and sel['form'] == 'end' and sel.get('extra'):
                    # posoargs('self', <name>, end=...): the explicit names include the parameter receiving the instance
                    sel = dict(sel, extra=['self'] + [n for n in sel['extra'] if n != 'self'])
                elif bound and sel.get('po') and sel['form'] in ('names_over_start', 'names_over_end', 'start_over_names', 'end_over_names'):
                    sel = dict(sel, po=['self'] + [n for n in sel['po'] if n != 'self'])
                take = rnd.random() < frac
                if take and k % nshards == shard:
                    yield modif.modif_event('mod/%d-%d' % (i, j), ps, bound, **sel)
                if take:
                    k += 1
    return gen


def self_named_gen():
    """plain FUNCTIONS one of whose parameters is spelled 'self' (any name is a legal parameter name): converted and called by that name"""
    P = lambda n, d=False: {'n': n, 'k': 'pok', 'd': d, 'dv': 0, 'an': 0}    # noqa
    cases = [([P('a'), P('self')], dict(form='names', kwo=['self'])), ([P('a'), P('self', True)], dict(form='names', kwo=['self'])),
             ([P('self'), P('a')], dict(form='names', kwo=['a'])), ([P('self'), P('a')], dict(form='names', po=['self'])),
             ([P('a'), P('self', True)], dict(form='auto', exc=[])), ([P('a'), P('self')], dict(form='start', s='self', extra=[])),
             ([P('a'), P('self'), {'n': 'kwargs', 'k': 'vkw', 'd': False, 'dv': 0, 'an': 0}], dict(form='names', kwo=['self']))]

    def gen(shard, nshards):
        for k, (ps, sel) in enumerate(cases):
            if k % nshards == shard:
                yield modif.modif_event('selfname/%d' % k, ps, False, **sel)
    return gen


def classify(tid, clause, case):
    return clause


def run(check, tier, seed, scratch):
    quick = tier == 'quick'
    model(check, scratch, 'abc', 2, 2, 'Modifiers(names abc, <=2 named, selections <=2)')
    if not quick:
        model(check, scratch, 'abc', 3, 2, 'Modifiers(names abc, <=3 named, selections <=2)')
    U2 = tlc.export_universe(scratch, 'ab', ['args'], ['kwargs'], 2)
    U3 = tlc.export_universe(scratch, 'abc', ['args'], ['kwargs'], 3)
    gens = [gen_for(U2, seed, 1.0), gen_for(U3, seed + 1, 0.04 if quick else 1.0), self_named_gen()]
    if not quick:
        U4 = tlc.export_universe(scratch, 'abcd', ['args'], ['kwargs'], 4)
        gens.append(gen_for(U4, seed + 2, 0.01))
    res = run_trace_leg(check, scratch, 'modifiers', _chain(*gens), None,
                        module='Trace_Modifiers', describe=modif.describe, classify=classify)
    check.cov['exhaustive'] = False
    check.cov['rule'] = ('base functions: all %d signatures over names a,b (<=2 named) and %s of the %d over a,b,c (<=3 named)%s, each as function and (every third case) as method on an '
                         'instance; per base every single-decorator selection of <=2 names from its parameter/star names + a foreign name, 8 stacked po+kwo selections in either '
                         'order, 6 start= and 6 end= forms, all exceptions= subsets of <=2; every admissible case called on every shape of the complete call set; '
                         'distinct by (base, placement, form, selection)' % (len(U2), '4%' if quick else 'all', len(U3), '' if quick else ', 1% of the <=4-named universe'))
    check.assumptions += ['calls passing a positional-only name by keyword alongside **kwargs are excluded (version-dependent), as the property states',
                          'a positional-only selection on a method includes the instance parameter (otherwise it is inadmissible: positional-only after a regular parameter)']


def _chain(*gens):
    def gen(shard, nshards):
        for g in gens:
            for e in g(shard, nshards):
                yield e
    return gen


def replay(check, case, scratch):
    c = case['case']

    def gen(shard, nshards):
        if shard == 0:
            yield modif.modif_event(case['tid'], c['base0'], c['bound'], c['form'], po=c['po'], kwo=c['kwo'], order=c['order'], s=c['s'], extra=c['extra'], exc=c['exc'])
    run_trace_leg(check, scratch, 'replay', gen, None, nshards=1, module='Trace_Modifiers', describe=modif.describe, classify=classify)
