"""Running TLC (model runs, trace validation, simulation) and parsing what it prints.

Everything TLC writes goes into a per-run scratch directory created by `Scratch` and
removed when the check exits; nothing persistent is kept under /tmp.
"""
import os
import re
import shutil
import subprocess
import tempfile
import time
from concurrent.futures import ThreadPoolExecutor

VERIF = os.path.dirname(os.path.dirname(os.path.abspath(__file__)))
SPEC = os.path.join(VERIF, 'spec')
TLC_CP = '/opt/veriftools/tla/tla2tools.jar:/opt/veriftools/tla/CommunityModules-deps.jar'
NCPU = os.cpu_count() or 4


class MachineryError(Exception):
    """TLC crashed, a trace was not consumed, output unparsable ... (exit 2, never a VIOLATION)"""


class Scratch:
    def __init__(self, tag='verif'):
        self.dir = tempfile.mkdtemp(prefix='sigtools-%s-' % tag)
        self.n = 0

    def sub(self, name):
        self.n += 1
        d = os.path.join(self.dir, '%s-%d' % (name, self.n))
        os.makedirs(d)
        return d

    def path(self, name):
        return os.path.join(self.dir, name)

    def cleanup(self):
        shutil.rmtree(self.dir, ignore_errors=True)

    def __enter__(self):
        return self

    def __exit__(self, *exc):
        self.cleanup()


class TLCResult:
    def __init__(self, out, rc, wall):
        self.out = out
        self.rc = rc
        self.wall = wall
        m = re.findall(r'(\d+) states generated, (\d+) distinct states found', out)
        self.generated = int(m[-1][0]) if m else 0
        self.distinct = int(m[-1][1]) if m else 0
        # simulation mode prints a different summary
        m2 = re.findall(r'The number of states generated: (\d+)', out)
        if m2 and not m:
            self.generated = int(m2[-1])
            self.distinct = int(m2[-1])
        self.invariants_violated = re.findall(r'Error: Invariant (\S+) is violated', out)
        self.props_violated = re.findall(r'Error: Action property (\S+) is violated', out)
        self.errors = [l for l in out.splitlines() if l.startswith('Error:')]
        self.ok = ('Model checking completed. No error has been found.' in out) or \
                  (rc == 0 and not self.errors)
        self.strings = re.findall(r'^"((?:[^"\\]|\\.)*)"$', out, flags=re.M)
        d = re.findall(r'The depth of the complete state graph search is (\d+)', out)
        self.depth = int(d[-1]) if d else None

    def lines(self, prefix):
        """PrintT("PREFIX|a|b") lines -> list of field lists"""
        res = []
        for s in self.strings:
            if s.startswith(prefix + '|'):
                s = s.encode().decode('unicode_escape') if '\\' in s else s
                res.append(s.split('|')[1:])
        return res

    def coverage(self):
        """per-action counts from -coverage output: {action: (distinct, total)}"""
        cov = {}
        for m in re.finditer(r'^<(\w+) line (\d+), col \d+ to line \d+, col \d+ of module (\w+)>: (\d+):(\d+)', self.out, flags=re.M):
            cov['%s!%s' % (m.group(3), m.group(1))] = (int(m.group(4)), int(m.group(5)))
        return cov


def write_cfg(path, *, spec=None, init=None, next_=None, constants=None, invariants=(), properties=(),
              constraints=(), action_constraints=(), postcondition=None, check_deadlock=False, view=None, symmetry=None):
    lines = []
    if spec:
        lines.append('SPECIFICATION %s' % spec)
    if init:
        lines.append('INIT %s' % init)
    if next_:
        lines.append('NEXT %s' % next_)
    if constants:
        lines.append('CONSTANTS')
        for k, v in constants.items():
            if isinstance(v, Subst):
                lines.append('  %s <- %s' % (k, v))
            else:
                lines.append('  %s = %s' % (k, tla_value(v)))
    for i in invariants:
        lines.append('INVARIANT %s' % i)
    for p in properties:
        lines.append('PROPERTY %s' % p)
    for c in constraints:
        lines.append('CONSTRAINT %s' % c)
    for c in action_constraints:
        lines.append('ACTION_CONSTRAINT %s' % c)
    if postcondition:
        lines.append('POSTCONDITION %s' % postcondition)
    if view:
        lines.append('VIEW %s' % view)
    if symmetry:
        lines.append('SYMMETRY %s' % symmetry)
    lines.append('CHECK_DEADLOCK %s' % ('TRUE' if check_deadlock else 'FALSE'))
    with open(path, 'w') as f:
        f.write('\n'.join(lines) + '\n')
    return path


class Raw(str):
    """a cfg value written verbatim"""


class Subst(str):
    """CONSTANT name <- definition of the module"""


def tla_value(v):
    if isinstance(v, Raw):
        return str(v)
    if isinstance(v, bool):
        return 'TRUE' if v else 'FALSE'
    if isinstance(v, int):
        if v < 0:
            raise ValueError('cfg files reject negative literals')
        return str(v)
    if isinstance(v, str):
        return '"%s"' % v
    if isinstance(v, (set, frozenset)):
        return '{' + ', '.join(tla_value(x) for x in sorted(v, key=repr)) + '}'
    if isinstance(v, (list, tuple)):
        return '<<' + ', '.join(tla_value(x) for x in v) + '>>'
    raise TypeError(v)


def _die_with_parent():
    """a TLC process must not outlive the check that started it (a killed check once left a 16-core model run behind)"""
    try:
        import ctypes
        import signal
        ctypes.CDLL('libc.so.6').prctl(1, signal.SIGKILL)      # PR_SET_PDEATHSIG
    except Exception:  # noqa
        pass


def run_tlc(module, cfg, scratch, *, env=None, workers=1, simulate=None, depth=None, seed=None,
            timeout=3600, coverage=False, deque=False, xmx='2g', extra=(), dump=None, cont=False):
    """module: name in /verif/spec (without .tla).  cfg: path.  Returns TLCResult."""
    meta = scratch.sub('meta')
    # (TLC makes a scratch directory of its own under java.io.tmpdir on every start: inside ours, which is removed with the check)
    cmd = ['java', '-XX:+UseParallelGC', '-Xmx' + xmx, '-Djava.io.tmpdir=' + meta]
    if deque:
        cmd.append('-Dtlc2.tool.queue.IStateQueue=StateDeque')
    cmd += ['-cp', TLC_CP, 'tlc2.TLC', '-metadir', meta, '-noGenerateSpecTE',
            '-workers', str(workers), '-config', cfg]
    if simulate is not None:
        cmd += ['-simulate', simulate]
    if depth is not None:
        cmd += ['-depth', str(depth)]
    if seed is not None:
        cmd += ['-seed', str(seed)]
    if coverage:
        cmd += ['-coverage', '1']
    if dump:
        cmd += ['-dump', 'dot,actionlabels', dump]
    if cont:
        cmd.append('-continue')
    cmd += list(extra)
    cmd.append(os.path.join(SPEC, module + '.tla'))
    e = dict(os.environ)
    e.pop('JAVA_TOOL_OPTIONS', None)
    if env:
        e.update({k: str(v) for k, v in env.items()})
    t0 = time.time()
    try:
        p = subprocess.run(cmd, cwd=meta, env=e, stdout=subprocess.PIPE, stderr=subprocess.STDOUT,
                           timeout=timeout, text=True, errors='replace', preexec_fn=_die_with_parent)
        out, rc = p.stdout, p.returncode
    except subprocess.TimeoutExpired as ex:
        out = (ex.stdout or b'')
        if isinstance(out, bytes):
            out = out.decode(errors='replace')
        out += '\nError: TIMEOUT after %ss' % timeout
        rc = 124
    shutil.rmtree(meta, ignore_errors=True)
    return TLCResult(out, rc, time.time() - t0)


def run_many(jobs, parallel=None):
    """jobs: list of zero-argument callables returning TLCResult; run in parallel threads"""
    parallel = parallel or NCPU
    with ThreadPoolExecutor(max_workers=parallel) as ex:
        return list(ex.map(lambda j: j(), jobs))


def export_universe(scratch, names, starv, stark, maxnamed, dvs=(), ans=()):
    """runs ExportUniverse; returns list of parameter lists (each a list of dicts)"""
    import json
    d = scratch.sub('universe')
    out = os.path.join(d, 'u.ndjson')
    cfg = write_cfg(os.path.join(d, 'ExportUniverse.cfg'), constants=dict(
        Names=set(names), StarV=set(starv), StarK=set(stark), MaxNamed=maxnamed,
        DVs=set(dvs), ANs=set(ans)))
    r = run_tlc('ExportUniverse', cfg, scratch, env={'OUT_FILE': out}, timeout=600, xmx='4g')
    m = re.search(r'<<"UNIVERSE", (\d+)>>', r.out)
    if not m or not os.path.exists(out):
        raise MachineryError('universe export failed:\n' + r.out[-2000:])
    sigs = [json.loads(l)['ps'] for l in open(out) if l.strip()]
    if len(sigs) != int(m.group(1)):
        raise MachineryError('universe size mismatch: TLC says %s, file has %d' % (m.group(1), len(sigs)))
    # canonical order so that tids are stable across runs
    sigs.sort(key=lambda ps: json.dumps(ps, sort_keys=True))
    return sigs
