"""Projection between real sigtools/inspect signatures and the abstract records of the spec.

abstract parameter: {"n": name, "k": "po|pok|var|kwo|vkw", "d": has default,
                     "dv": default id (0 none, 1 None, >=2 sentinel), "an": annotation id (0 none)}
abstract signature: {"ps": [param...], "src": {name: [fn id...]}, "depth": {fn id: int}}
"""
import inspect
import linecache

KIND = {
    inspect.Parameter.POSITIONAL_ONLY: 'po',
    inspect.Parameter.POSITIONAL_OR_KEYWORD: 'pok',
    inspect.Parameter.VAR_POSITIONAL: 'var',
    inspect.Parameter.KEYWORD_ONLY: 'kwo',
    inspect.Parameter.VAR_KEYWORD: 'vkw',
}
RKIND = {v: k for k, v in KIND.items()}


class Sentinel:
    """a distinguishable value; equal only to itself"""
    __slots__ = ('tag', 'id')

    def __init__(self, tag, id):
        self.tag = tag
        self.id = id

    def __repr__(self):
        return '%s%d' % (self.tag, self.id)


class EqSentinel(Sentinel):
    """a value EQUAL to every other instance with the same tag and id, and never the same object: separately built equal defaults"""
    __slots__ = ()

    def __eq__(self, other):
        return isinstance(other, Sentinel) and (self.tag, self.id) == (other.tag, other.id)

    def __ne__(self, other):
        return not self == other

    def __hash__(self):
        return hash((self.tag, self.id))


DV = {i: Sentinel('D', i) for i in range(2, 40)}
AN = {i: Sentinel('A', i) for i in range(1, 40)}
GLOBALS_BASE = {}
GLOBALS_BASE.update({repr(v): v for v in DV.values()})
GLOBALS_BASE.update({repr(v): v for v in AN.values()})


def dv_id(value):
    if value is inspect.Parameter.empty:
        return 0
    if type(value) is Unusual:
        return value.verif_dv_id
    if value is None:
        return 1
    if isinstance(value, Sentinel) and value.tag == 'D':
        return value.id
    return 99


class Unusual:
    """a VALUE (annotation or default) with an unusual ==: mode 'anyeq' equals everything (unittest.mock.ANY), 'notruth' answers == / != with an
    object that has no truth value (arrays), 'raises' raises from == / !=, 'never' is not even equal to itself (NaN)"""

    def __init__(self, mode, an=0, dv=0):
        self.mode, self.verif_an_id, self.verif_dv_id = mode, an, dv

    def _cmp(self, eq):
        if self.mode == 'anyeq':
            return eq
        if self.mode == 'never':
            return not eq
        if self.mode == 'raises':
            raise RuntimeError('comparison refused')
        return _NoTruth()

    def __eq__(self, other):
        return self._cmp(True)

    def __ne__(self, other):
        return self._cmp(False)

    __hash__ = object.__hash__

    def __repr__(self):
        return 'U_%s' % self.mode


class _NoTruth:
    def __bool__(self):
        raise TypeError('truth value is ambiguous')


def an_id(value):
    if value is inspect.Parameter.empty:
        return 0
    if type(value) is Unusual:
        return value.verif_an_id
    if isinstance(value, Sentinel) and value.tag == 'A':
        return value.id
    if isinstance(value, str) and value in STR_ANN:
        return STR_ANN[value]
    return 99


# annotation VALUES that are strings (given to modifiers.annotate: to be reported verbatim, never evaluated): one spells a global name
STR_ANN = {'A1': 81, 'free text !': 82}


# annotation ids whose TEXT is an expression that raises when a postponed annotation is evaluated
ANN_TEXT = {91: 'A1.no_such_attribute', 92: "(1)['x']", 93: 'Name_not_defined_anywhere',
            94: 'NANV', 95: 'WEIRD', 97: 'Marker()'}       # names bound (by the caller) to values with an unusual ==: NaN, an object whose __eq__ answers with a string


def render_params(ps, annotations=True):
    """abstract parameter list -> text of a def's parameter list"""
    out = []
    kinds = [p['k'] for p in ps]
    n_po = kinds.count('po')
    seen_star = False
    for i, p in enumerate(ps):
        k = p['k']
        if k == 'kwo' and not seen_star:
            out.append('*')
            seen_star = True
        t = p['n']
        if k == 'var':
            t = '*' + t
            seen_star = True
        elif k == 'vkw':
            t = '**' + t
        ann = p.get('an', 0)
        if annotations and ann:
            t += ': ' + ANN_TEXT.get(ann, 'A%d' % ann)
        if p['d']:
            dv = p.get('dv', 2) or 2
            dflt = 'None' if dv == 1 else 'D%d' % dv
            t += (' = ' if (annotations and ann) else '=') + dflt
        out.append(t)
        if k == 'po' and i + 1 == n_po:
            out.append('/')
    return ', '.join(out)


_counter = [0]


def make_func(ps, name='f', extra_globals=None, body='return locals()', register_source=False, future=False, ret=None, share_globals=None):
    """builds a real function whose def has exactly the abstract parameter list (ret: text of a return annotation;
    share_globals: an existing globals dict to define the function in -- functions of one module share their globals)"""
    src = 'def %s(%s)%s:\n    %s\n' % (name, render_params(ps), ' -> %s' % ret if ret else '', body)
    if share_globals is not None:
        g = share_globals
        for k, v in GLOBALS_BASE.items():
            g.setdefault(k, v)
    else:
        g = dict(GLOBALS_BASE)
    if extra_globals:
        g.update(extra_globals)
    _counter[0] += 1
    fname = '<verif-%d>' % _counter[0]
    if register_source:
        linecache.cache[fname] = (len(src), None, src.splitlines(True), fname)
    flags = 0
    if future:
        import __future__
        flags = __future__.annotations.compiler_flag
    exec(compile(src, fname, 'exec', flags), g)
    return g[name]


class FnTable:
    """callable -> small id string"""

    def __init__(self):
        self.ids = {}
        self.objs = []

    def add(self, obj, id=None):
        key = self._key(obj)
        if key not in self.ids:
            self.ids[key] = id or 'f%d' % (len(self.ids) + 1)
            self.objs.append(obj)
        return self.ids[key]

    def _key(self, obj):
        try:
            hash(obj)
            return ('h', obj)
        except TypeError:
            return ('i', id(obj))

    def get(self, obj):
        key = self._key(obj)
        if key in self.ids:
            return self.ids[key]
        return self.add(obj, 'x%d' % (len(self.ids) + 1))


def project_params(sig):
    ps = []
    for p in sig.parameters.values():
        ps.append({'n': p.name, 'k': KIND[p.kind], 'd': p.default is not p.empty,
                   'dv': dv_id(p.default), 'an': an_id(p.annotation)})
    return ps


def upgraded_annotation_ids(sig):
    """what upgraded_annotation.source_value() yields per parameter (for eagerly annotated functions: the annotation object itself)"""
    out = []
    for p in sig.parameters.values():
        ua = getattr(p, 'upgraded_annotation', None)
        if ua is None:
            out.append(-1)
            continue
        try:
            out.append(an_id(ua.source_value()))
        except Exception:  # noqa
            out.append(98)
    return out


def project(sig, fns):
    """real UpgradedSignature -> abstract signature with provenance"""
    res = {'ps': project_params(sig), 'uan': upgraded_annotation_ids(sig)}
    sources = getattr(sig, 'sources', None)
    src = {}
    depth = {}
    if isinstance(sources, dict):
        for k, v in sources.items():
            if k == '+depths':
                for f, d in v.items():
                    depth[fns.get(f)] = d
            else:
                src[k] = [fns.get(f) for f in v]
        res['hasdepths'] = '+depths' in sources
    else:
        res['hasdepths'] = False
    res['src'] = src
    res['depth'] = depth
    return res


def ids_of(sig):
    """object identities of the provenance containers (for the no-aliasing clause of C16)"""
    sources = getattr(sig, 'sources', None)
    if not isinstance(sources, dict):
        return []
    ids = [id(sources)]
    for k, v in sources.items():
        ids.append(id(v))
    # the parameters carry their own view of the provenance (UpgradedParameter.sources / .source_depths): lists and maps like the others
    for p in sig.parameters.values():
        for attr in ('sources', 'source_depths'):
            v = getattr(p, attr, None)
            if isinstance(v, (list, dict)):
                ids.append(id(v))
    return ids


def sig_str(ps):
    return '(' + render_params(ps) + ')'


def canon_names(ps_list):
    """name-normalised form of a tuple of parameter lists (for structural known-finding keys)"""
    m = {}
    out = []
    for ps in ps_list:
        o = []
        for p in ps:
            if p['n'] not in m:
                m[p['n']] = 'n%d' % len(m)
            o.append((m[p['n']], p['k'], p['d']))
        out.append(tuple(o))
    return tuple(out)
