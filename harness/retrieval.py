"""Retrieval family (C07 corpus is in checks/c07.py): shared-object scenarios, exception injection at every crossing from sigtools
into outside code (C16b) and a deterministic line-level thread scheduler (C17).  Every run is logged as ONE trace: the hook events
(cleanup window, as_forged guard) with thread ids in their real order, call start/end marks, the attribute snapshots before and
after and each call's result next to the result of the same call run alone; spec/Trace_Retrieval.tla is the monitor."""
import functools
import inspect
import json
import os
import sys
import threading

from . import common

REPO_SIG = os.path.join(os.path.realpath(common.REPO), 'sigtools') + os.sep


# ------------------------------------------------------------------------------------------------ scenarios
def build(name):
    """-> dict(objs={label: object whose attributes are watched}, calls={label: thunk}, guardobj)"""
    import sigtools
    from sigtools import specifiers, modifiers, wrappers

    def inner(x, y, *, z):
        return x, y, z
    if name == 'wraps':
        @functools.wraps(inner)
        def w(*args, **kwargs):
            return inner(*args, **kwargs)
        return {'objs': {'w': w, 'inner': inner}, 'calls': {'sig': lambda: sigtools.signature(w), 'inspect': lambda: inspect.signature(w)}}
    if name == 'wraps_chain':
        @functools.wraps(inner)
        def w1(*args, **kwargs):
            return inner(*args, **kwargs)

        @functools.wraps(w1)
        def w2(*args, **kwargs):
            return w1(*args, **kwargs)
        return {'objs': {'w': w2, 'w1': w1, 'inner': inner}, 'calls': {'sig': lambda: sigtools.signature(w2), 'inspect': lambda: inspect.signature(w2), 'sig1': lambda: sigtools.signature(w1)}}
    if name == 'signature_attr':
        def w(*args, **kwargs):
            return inner(*args, **kwargs)
        w.__signature__ = inspect.signature(inner)
        return {'objs': {'w': w, 'inner': inner}, 'calls': {'sig': lambda: sigtools.signature(w), 'inspect': lambda: inspect.signature(w)}}
    if name == 'signature_attr_upgraded':
        # the stored signature is one of sigtools' own, built by hand (no sources); nothing in the wrapper for discovery to find
        from sigtools import signatures

        def w(d, e):
            return d, e
        w.__signature__ = signatures.signature(inner).replace(sources={})
        p = functools.partial(w)
        return {'objs': {'w': w, 'inner': inner}, 'calls': {'sig': lambda: sigtools.signature(w), 'inspect': lambda: inspect.signature(w),
                                                             'noauto': lambda: sigtools.signature(w, auto=False), 'partial': lambda: sigtools.signature(p)}}
    if name == 'forger':
        @specifiers.forwards_to_function(inner)
        def w(a, *args, **kwargs):
            return inner(*args, **kwargs)
        return {'objs': {'w': w, 'inner': inner}, 'calls': {'sig': lambda: sigtools.signature(w), 'inspect': lambda: inspect.signature(w)}}
    if name == 'forger_emulate':
        @specifiers.forwards_to_function(inner, emulate=True)
        def w(a, *args, **kwargs):
            return inner(*args, **kwargs)
        return {'objs': {'w': w, 'inner': inner}, 'calls': {'sig': lambda: sigtools.signature(w), 'inspect': lambda: inspect.signature(w)}}
    if name == 'modifiers':
        @modifiers.kwoargs('b')
        def w(a, b=1, *args, **kwargs):
            return inner(*args, **kwargs)
        return {'objs': {'w': w, 'inner': inner}, 'calls': {'sig': lambda: sigtools.signature(w), 'inspect': lambda: inspect.signature(w)}}
    if name == 'as_forged':
        class C(object):
            __signature__ = specifiers.as_forged

            @specifiers.forwards_to_method('method')
            def __call__(self, first, *args, **kwargs):
                return self.method(*args, **kwargs)

            def method(self, r, *, s):
                return r, s
        o = C()
        return {'objs': {'w': o}, 'calls': {'sig': lambda: sigtools.signature(o), 'inspect': lambda: inspect.signature(o)}}
    if name == 'as_forged_hashed':
        # the object defines __hash__ / __eq__ in Python: the guard's set operations cross into user code (compiled under a file name of its
        # own: frames of this harness are not fault sites)
        g = {'specifiers': specifiers}
        exec(compile(_HASHED_SRC, '<verif-user-class>', 'exec'), g)
        o = g['C']()
        return {'objs': {'w': o}, 'calls': {'sig': lambda: sigtools.signature(o), 'inspect': lambda: inspect.signature(o)}}
    if name in ('as_forged_class', 'as_forged_subclass'):
        # the subject of the retrieval is the CLASS: its __signature__ entry is the as_forged descriptor itself (own, or inherited)
        class C(object):
            __signature__ = specifiers.as_forged

            @specifiers.forwards_to_method('method')
            def __call__(self, first, *args, **kwargs):
                return self.method(*args, **kwargs)

            def method(self, r, *, s):
                return r, s

        class D(C):
            pass
        T = C if name == 'as_forged_class' else D
        return {'objs': {'w': T, 'base': C}, 'calls': {'sig': lambda: sigtools.signature(T), 'inspect': lambda: inspect.signature(T)}}
    if name == 'forger_emulate_special':
        # an emulated declaration on an attribute the wrapper converts on first lookup (__init_subclass__ -> classmethod): first lookups race
        class K(object):
            @specifiers.forwards_to_function(inner, emulate=True)
            def __init_subclass__(cls, flavour, *args, **kwargs):
                return inner(*args, **kwargs)
        # (the wrapper object converts what it wraps on its first lookup, by design: it is not among the watched objects)
        return {'objs': {'inner': inner},
                'calls': {'sig': lambda: sigtools.signature(K.__init_subclass__), 'inspect': lambda: inspect.signature(K.__init_subclass__)}}
    if name == 'forger_bound_method':
        # a bound method takes no attributes: the declaration falls back on wrapping it (_ForgerWrapper) by itself
        class K(object):
            def m(self, a, *args, **kwargs):
                return inner(*args, **kwargs)
        k = K()
        w = specifiers.forwards_to_function(inner)(k.m)
        return {'objs': {'w': w, 'm': K.__dict__['m'], 'inner': inner}, 'calls': {'sig': lambda: sigtools.signature(w), 'inspect': lambda: inspect.signature(w)}}
    if name == 'sig_property':
        # __signature__ provided by a property of the class (computed on every access)
        class P(object):
            @property
            def __signature__(self):
                return inspect.signature(inner)

            def __call__(self, *args, **kwargs):
                return inner(*args, **kwargs)
        o = P()
        return {'objs': {'w': o, 'cls': P, 'inner': inner}, 'calls': {'sig': lambda: sigtools.signature(o), 'inspect': lambda: inspect.signature(o)}}
    if name == 'combination':
        def first(arg, y=0, *, z=None):
            return arg

        def second(arg, *args, **kwargs):
            return inner(arg, *args, **kwargs)
        c = wrappers.Combination(first, second)
        return {'objs': {'w': c, 'first': first, 'second': second, 'inner': inner}, 'calls': {'sig': lambda: sigtools.signature(c), 'inspect': lambda: inspect.signature(c)}}
    if name == 'decorator':
        @wrappers.decorator
        def d(func, *args, c=3, **kwargs):
            return func(*args, **kwargs)

        @d
        def w(x, y=2):
            return x, y
        return {'objs': {'w': w}, 'calls': {'sig': lambda: sigtools.signature(w), 'inspect': lambda: inspect.signature(w)}}
    if name == 'method_kwo':
        class K(object):
            @modifiers.kwoargs('b')
            def m(self, a, b=1, *args, **kwargs):
                return inner(*args, **kwargs)
        k = K()

        def hold_drop():
            # holds a bound wrapper (a live cache entry of the descriptor) during a retrieval, then lets go of it and collects
            import gc
            b = k.m
            r = str(sigtools.signature(b))      # (as text: the signature object itself refers to the wrapper through its sources)
            del b
            gc.collect()
            return r
        def hold_again():
            # keeps the first bound wrapper while looking the method up a second time
            b = k.m
            r = str(sigtools.signature(k.m))
            del b
            return r

        def sig_gc():
            import gc
            r = str(sigtools.signature(k.m))
            gc.collect()
            return r
        return {'objs': {'w': K.__dict__['m']}, 'calls': {'sig': lambda: sigtools.signature(k.m), 'inspect': lambda: inspect.signature(k.m), 'bind': lambda: sigtools.signature(K().m),
                                                           'hold_drop': hold_drop, 'hold_again': hold_again, 'sig_gc': sig_gc}}
    if name == 'forger_function':
        from sigtools import support

        @specifiers.forger_function
        @modifiers.kwoargs('obj')
        def static_signature(obj, sig):
            return sig

        @static_signature(support.s('a, b, /'))
        def w(d, e):
            return d, e
        return {'objs': {'w': w}, 'calls': {'sig': lambda: sigtools.signature(w), 'inspect': lambda: inspect.signature(w)}}
    if name == 'partial_wraps':
        @functools.wraps(inner)
        def w(*args, **kwargs):
            return inner(*args, **kwargs)
        p = functools.partial(w, 1)
        return {'objs': {'w': w, 'inner': inner}, 'calls': {'sig': lambda: sigtools.signature(p), 'inspect': lambda: inspect.signature(p)}}
    if name == 'super_class':
        class Base(object):
            def m(self, x, y=2):
                return x, y

        @specifiers.apply_forwards_to_super('m')
        class K(Base):
            def m(self, a, *args, **kwargs):
                return super(K, self).m(*args, **kwargs)
        k = K()
        return {'objs': {'w': K.__dict__['m'], 'base': Base.__dict__['m']}, 'calls': {'sig': lambda: sigtools.signature(k.m), 'inspect': lambda: inspect.signature(k.m)}}
    if name == 'wrapper_decorator':
        @wrappers.wrapper_decorator(0)
        def d(func, *args, c=3, **kwargs):
            return func(*args, **kwargs)

        @d
        def w(x, y=2):
            return x, y
        return {'objs': {'w': w}, 'calls': {'sig': lambda: sigtools.signature(w), 'inspect': lambda: inspect.signature(w)}}
    raise ValueError(name)


_HASHED_SRC = """
class C(object):
    __signature__ = specifiers.as_forged

    def __hash__(self):
        return 7

    def __eq__(self, other):
        return self is other

    @specifiers.forwards_to_method('method')
    def __call__(self, first, *args, **kwargs):
        return self.method(*args, **kwargs)

    def method(self, r, *, s):
        return r, s
"""
# scenarios whose crossings are all tried at every tier (few, and the interesting ones are rare among them)
ALL_CROSSINGS = ('as_forged_hashed',)

SCENARIOS = ['wraps', 'wraps_chain', 'signature_attr', 'signature_attr_upgraded', 'forger', 'forger_emulate', 'modifiers', 'as_forged', 'as_forged_hashed', 'as_forged_class', 'as_forged_subclass', 'forger_bound_method', 'forger_emulate_special', 'sig_property', 'combination', 'decorator', 'method_kwo',
             'forger_function', 'partial_wraps', 'super_class', 'wrapper_decorator']
WATCHED = ('__wrapped__', '__signature__', '_sigtools__forger', '_sigtools__wrappers')


def snapshot(sc):
    """which watched attributes each watched object has in its __dict__ (presence + identity table)"""
    ids = {}
    out = {}
    for label, o in sc['objs'].items():
        try:
            d = vars(o)
        except TypeError:
            d = {}
        row = {}
        for k, v in d.items():
            row[k] = ids.setdefault(id(v), len(ids) + 1)
            if isinstance(v, inspect.Signature):
                row[k + '(content)'] = ids.setdefault(deep(v), len(ids) + 1)
        out[label] = row
    return out, ids


def deep(sig):
    """the CONTENT of a stored signature object, as text: an object reachable through __signature__ must not be written to either"""
    def names(fs):
        return [getattr(f, '__qualname__', repr(f)) for f in fs]
    src = getattr(sig, 'sources', None)
    srcs = None if src is None else sorted((str(k), names(v) if isinstance(v, (list, tuple)) else sorted((getattr(f, '__qualname__', repr(f)), n) for f, n in v.items())) for k, v in src.items())
    pars = [(p.name, str(p.kind), names(getattr(p, 'sources', ())), sorted(str(x) for x in getattr(p, 'source_depths', {}).values())) for p in sig.parameters.values()]
    return 'content:' + str(sig) + repr(srcs) + repr(pars)


def snap_compare(before, after_objs):
    """-> {label: sorted attribute names} before, after; identity changes of watched attributes"""
    b, ids = before
    out_b, out_a, changed = {}, {}, []
    for label, o in after_objs.items():
        try:
            d = vars(o)
        except TypeError:
            d = {}
        out_b[label] = sorted(k for k in b[label] if not k.endswith('(content)'))
        out_a[label] = sorted(d)
        for k in b[label]:
            if k.endswith('(content)'):
                v = d.get(k[:-9])
                if isinstance(v, inspect.Signature) and ids.get(deep(v)) != b[label][k]:
                    changed.append('%s.%s' % (label, k))
            elif k in d and ids.get(id(d[k])) != b[label][k]:
                changed.append('%s.%s' % (label, k))
    return out_b, out_a, changed


def guard_size():
    from sigtools import specifiers
    try:
        return len(specifiers.as_forged.currently_computing)
    except Exception:  # noqa
        return -1


def outcome(thunk):
    try:
        return 'ok:' + str(thunk())
    except BaseException as e:  # noqa
        return 'raise:' + type(e).__name__


# ------------------------------------------------------------------------------------------------ event recording
class Recorder:
    def __init__(self):
        self.events = []
        self.lock = threading.Lock()
        self.names = {}

    def tid(self):
        return getattr(threading.current_thread(), 'verif_tid', 0)

    def __call__(self, ev, fields):
        with self.lock:
            self.events.append({'t': self.tid(), 'ev': ev, 'obj': self.names.setdefault(fields.get('obj'), 'o%d' % (len(self.names) + 1)), 'attr': fields.get('attr', '-')})

    def mark(self, ev, t):
        with self.lock:
            self.events.append({'t': t, 'ev': ev, 'obj': '-', 'attr': '-'})


def install(rec):
    from sigtools import _verif
    _verif.tracer = rec


def uninstall():
    from sigtools import _verif
    _verif.tracer = None


# ------------------------------------------------------------------------------------------------ C16(b): crash points
EXC = {'AttributeError': AttributeError, 'ValueError': ValueError, 'TypeError': TypeError, 'OSError': OSError, 'KeyError': KeyError}
C_GETTERS = ('getattr', 'hasattr')


class Injector:
    """counts the crossings from sigtools code into outside code and raises at the k-th one.
    Crossings: a Python function outside sigtools called from a sigtools frame (inspect machinery, source loading and parsing, user
    forgers, descriptors), and the attribute getters getattr / hasattr called from a sigtools frame.  setattr / delattr and container
    methods are restoration primitives, not fault sites (a failing setattr makes 'restored' unachievable by any implementation)."""

    def __init__(self, k=None, exc=None):
        self.k, self.exc, self.n, self.hit = k, exc, 0, None

    def prof(self, frame, ev, arg):
        if ev == 'call':
            caller = frame.f_back
            if caller is not None and caller.f_code.co_filename.startswith(REPO_SIG) and not frame.f_code.co_filename.startswith(REPO_SIG) \
                    and not frame.f_code.co_filename.startswith(os.path.dirname(__file__)):
                self.n += 1
                if self.n == self.k:
                    self.hit = 'py:%s<-%s:%d' % (frame.f_code.co_name, caller.f_code.co_name, caller.f_lineno - caller.f_code.co_firstlineno)
                    sys.setprofile(None)
                    raise self.exc('injected')
        elif ev == 'c_call':
            if frame.f_code.co_filename.startswith(REPO_SIG) and getattr(arg, '__name__', '') in C_GETTERS:
                self.n += 1
                if self.n == self.k:
                    self.hit = 'c:%s<-%s:%d' % (arg.__name__, frame.f_code.co_name, frame.f_lineno - frame.f_code.co_firstlineno)
                    sys.setprofile(None)
                    raise self.exc('injected')


def count_crossings(scenario, call):
    sc = build(scenario)
    inj = Injector()
    sys.setprofile(inj.prof)
    try:
        outcome(sc['calls'][call])
    finally:
        sys.setprofile(None)
    return inj.n


def crash_run(tid, scenario, call, k, excname):
    sc = build(scenario)
    alone = outcome(build(scenario)['calls'][call])
    rec = Recorder()
    before = snapshot(sc)
    inj = Injector(k, EXC[excname])
    install(rec)
    rec.mark('CallStart', 0)
    sys.setprofile(inj.prof)
    try:
        res = outcome(sc['calls'][call])
    finally:
        sys.setprofile(None)
        rec.mark('CallEnd', 0)
        uninstall()
    b, a, changed = snap_compare(before, sc['objs'])
    guard_after = guard_size()
    # the retrieval after the fault must work again as if nothing had happened
    again = outcome(sc['calls'][call])
    if guard_after:
        # (reported by the monitor for THIS case; the following cases of this worker start from an empty guard again)
        from sigtools import specifiers as _sp
        _sp.as_forged.currently_computing.clear()
    return {'tid': tid, 'op': 'run', 'kind': 'crash', 'scenario': scenario, 'events': rec.events, 'before': b, 'after': a, 'changed': changed,
            'guard_after': guard_after, 'results': [{'t': 0, 'call': call, 'res': res, 'raised': res.startswith('raise:'), 'alone': alone, 'again': again}], 'fault': {'k': k, 'exc': excname, 'site': inj.hit or 'none'},
            'case': {'kind': 'crash', 'scenario': scenario, 'call': call, 'k': k, 'exc': excname, 'site': inj.hit}}


# ------------------------------------------------------------------------------------------------ C17: scheduler
SCHED_FILES = tuple(os.path.join(REPO_SIG, f) for f in ('_autoforwards.py', '_specifiers.py', 'specifiers.py', '_util.py', 'wrappers.py', 'modifiers.py'))
SKIP_FUNCS = frozenset(['process_parameters', 'resolve_name', 'visit_FunctionDef', 'visit_Name', 'process_Call', 'visit_Call', 'expose_nested_Call', '__getitem__',
                        '__setitem__', 'owner', 'is_immutable_value', 'set_immutable_value', 'add_nonlocal', 'get_untainted', 'has_hide_starargs', 'visit_Nonlocal',
                        'visit_Attribute', 'get_starargs', 'get_kwargs', 'get_param', 'get_vararg'])


_HOOK_LINES = {}


def is_hook_line(filename, lineno):
    """a hook is an ordinary line directly after the state change it reports; the scheduler never switches between the two,
    so that the logged order is the real order"""
    key = (filename, lineno)
    r = _HOOK_LINES.get(key)
    if r is None:
        import linecache
        r = _HOOK_LINES[key] = '_verif' in linecache.getline(filename, lineno)
    return r


class Sched:
    """runs thread bodies one at a time; a thread yields control only at 'line' events in the non-algebra sigtools files when its step
    budget is used up.  schedule = [(thread, nsteps | None)]: run that thread for nsteps line steps (None = to completion)"""

    def __init__(self, bodies, schedule, rec):
        self.bodies, self.schedule, self.rec = bodies, list(schedule), rec
        self.sems = [threading.Semaphore(0) for _ in bodies]
        self.main = threading.Semaphore(0)
        self.done = [False] * len(bodies)
        self.results = [None] * len(bodies)
        self.budgets = [None] * len(bodies)
        self.steps = [0] * len(bodies)
        self.where = [None] * len(bodies)
        self.trail = [[] for _ in bodies]          # function name of every counted step

    def tracer(self, t):
        def tr(frame, ev, arg):
            code = frame.f_code
            if code.co_filename not in SCHED_FILES:
                return None if not code.co_filename.startswith(REPO_SIG) else tr
            if ev == 'line' and code.co_name not in SKIP_FUNCS and not is_hook_line(code.co_filename, frame.f_lineno):
                self.steps[t] += 1
                self.trail[t].append(code.co_name)
                b = self.budgets[t]
                if b is not None:
                    if b == 0:
                        self.where[t] = '%s:%d' % (code.co_name, frame.f_lineno - code.co_firstlineno)
                        self.main.release()
                        self.sems[t].acquire()
                    else:
                        self.budgets[t] = b - 1
            return tr
        return tr

    def worker(self, t):
        threading.current_thread().verif_tid = t
        self.sems[t].acquire()
        self.rec.mark('CallStart', t)
        sys.settrace(self.tracer(t))
        try:
            self.results[t] = outcome(self.bodies[t])
        finally:
            sys.settrace(None)
            self.rec.mark('CallEnd', t)
            self.done[t] = True
            self.main.release()

    def run(self):
        ths = [threading.Thread(target=self.worker, args=(i,)) for i in range(len(self.bodies))]
        for t in ths:
            t.start()
        points = []
        for t, n in self.schedule:
            if self.done[t]:
                continue
            self.budgets[t] = n
            self.sems[t].release()
            self.main.acquire()
            points.append([t, self.where[t] if not self.done[t] else 'end'])
        for t in range(len(self.bodies)):
            while not self.done[t]:
                self.budgets[t] = None
                self.sems[t].release()
                self.main.acquire()
        for t in ths:
            t.join()
        return self.results, points


def count_steps(scenario, call):
    sc = build(scenario)
    s = Sched([sc['calls'][call]], [(0, None)], Recorder())
    s.run()
    return s.steps[0]


def window_parks(scenario, call, limit=10):
    """step counts at which a thread running this call alone stands INSIDE the cleanup window's __enter__ / __exit__ (something is taken away)"""
    sc = build(scenario)
    s = Sched([sc['calls'][call]], [(0, None)], Recorder())
    s.run()
    at = [i for i, name in enumerate(s.trail[0]) if name in ('__enter__', '__exit__')]
    if len(at) > limit:
        at = [at[(j * len(at)) // limit] for j in range(limit)]
    return at


def sched_run(tid, scenario, calls, schedule):
    """calls: list of call labels, one per thread, on ONE shared scenario instance"""
    sc = build(scenario)
    alone = [outcome(build(scenario)['calls'][c]) for c in calls]
    rec = Recorder()
    before = snapshot(sc)
    install(rec)
    try:
        s = Sched([sc['calls'][c] for c in calls], schedule, rec)
        results, points = s.run()
    finally:
        uninstall()
    b, a, changed = snap_compare(before, sc['objs'])
    return {'tid': tid, 'op': 'run', 'kind': 'sched', 'scenario': scenario, 'events': rec.events, 'before': b, 'after': a, 'changed': changed,
            'guard_after': guard_size(), 'results': [{'t': t, 'call': c, 'res': results[t], 'raised': results[t].startswith('raise:'), 'alone': alone[t], 'again': alone[t]} for t, c in enumerate(calls)],
            'fault': {'k': 0, 'exc': '-', 'site': '-'}, 'points': points,
            'case': {'kind': 'sched', 'scenario': scenario, 'calls': calls, 'schedule': [list(x) for x in schedule], 'points': points}}


def describe(e, case):
    if e['kind'] == 'crash':
        key = json.dumps([e['scenario'], case['call'], case['k'], case['exc']])
        return key, False, '%s: %s with %s injected at crossing %d (%s) -> %s' % (e['scenario'], case['call'], case['exc'], case['k'], case['site'], e['results'][0]['res'][:60])
    key = json.dumps([e['scenario'], case['calls'], case['schedule']])
    return key, False, '%s: threads %s, schedule %s (switch points %s) -> %s' % (e['scenario'], case['calls'], case['schedule'], case['points'], [r['res'][:40] for r in e['results']])


# ------------------------------------------------------------------------------------------------ check parts
def model_runs(check, scratch, which):
    """spec/Retrieval.tla with the code's variants (EnterSafe, thread-local guard); which: 'faults' | 'threads'"""
    from . import tlc
    d = scratch.sub('retrieval-model')
    runs = []
    if which == 'faults':
        for scen, th in (('Scen_R', {1}), ('Scen_F', {1}), ('Scen_RR', {1, 2}), ('Scen_FF', {1, 2})):
            for a0 in ({'W'}, {'W', 'S'}, {'S'}):
                runs.append((scen, th, a0, True, ['C16_Restored', 'TypeOK']))
    else:
        for scen, th in (('Scen_RR', {1, 2}), ('Scen_RRR', {1, 2, 3}), ('Scen_RRI', {1, 2, 3}), ('Scen_FF', {1, 2}), ('Scen_FFF', {1, 2, 3})):
            for a0 in ({'W'}, {'W', 'S'}):
                invs = ['C17_NothingLost', 'C16_Restored', 'TypeOK'] + (['C17_Sequential'] if scen.startswith('Scen_F') else [])
                runs.append((scen, th, a0, False, invs))
    for k, (scen, th, a0, faults, invs) in enumerate(runs):
        cfg = tlc.write_cfg(os.path.join(d, 'Retrieval-%d.cfg' % k), spec='Spec', invariants=invs, constants=dict(
            Threads=th, Kind=tlc.Subst(scen), Attrs0=a0, Faults=faults, EnterSafe=True, GuardMode='threadlocal', SaveMode='raw', Descr={'S'}))
        r = tlc.run_tlc('Retrieval', cfg, scratch, workers=4, timeout=900, coverage=True)
        name = 'Retrieval(%s, attrs0=%s, faults=%s)' % (scen, ''.join(sorted(a0)), faults)
        check.add_model_run(name, r)
        if r.invariants_violated:
            check.error('%s: invariant violated %s' % (name, r.invariants_violated))
    # the variants the code does NOT have any more (each one a defect of the pinned tree, repaired): the invariant that caught it must fail
    pinned = [('faults', 'EnterSafe=FALSE (failing getter while entering: e7c597d)', 'Scen_R', {1}, {'W', 'S'}, True, dict(EnterSafe=False), 'C16_Restored'),
              ('faults', 'SaveMode=read (descriptor entry replaced: be1e47f)', 'Scen_R', {1}, {'S'}, False, dict(SaveMode='read'), 'C16_Restored'),
              ('threads', 'GuardMode=shared (guard shared between threads: 80727b8)', 'Scen_FF', {1, 2}, {'W'}, False, dict(GuardMode='shared'), 'C17_Sequential')]
    for w, label, scen, th, a0, faults, over, inv in pinned:
        if w != which:
            continue
        const = dict(Threads=th, Kind=tlc.Subst(scen), Attrs0=a0, Faults=faults, EnterSafe=True, GuardMode='threadlocal', SaveMode='raw', Descr={'S'})
        const.update(over)
        cfg = tlc.write_cfg(os.path.join(d, 'Retrieval-pinned-%s.cfg' % label.split('=')[0]), spec='Spec', invariants=[inv], constants=const)
        r = tlc.run_tlc('Retrieval', cfg, scratch, workers=2, timeout=600)
        check.legs['Retrieval(%s): %s expected to fail' % (label, inv)] = {'distinct': r.distinct, 'violated': bool(r.invariants_violated)}
        if not r.invariants_violated:
            check.error('Retrieval(%s): %s was expected to be violated' % (label, inv))
    if which == 'threads':
        # the concurrent configurations run without faults (crash points are C16's): the failing successors are disabled by design
        check.untaken_ok = {'Retrieval!GComputeFails', 'Retrieval!ReadFails', 'Retrieval!SaveFails'}
    if which == 'threads':
        # documented design-level finding: the window race breaks C17_Sequential for retrievers / observers (known finding window-race)
        cfg = tlc.write_cfg(os.path.join(d, 'Retrieval-race.cfg'), spec='Spec', invariants=['C17_Sequential'], constants=dict(
            Threads={1, 2}, Kind=tlc.Subst('Scen_RI'), Attrs0={'W'}, Faults=False, EnterSafe=True, GuardMode='threadlocal', SaveMode='raw', Descr={'S'}))
        r = tlc.run_tlc('Retrieval', cfg, scratch, workers=4, timeout=900)
        check.legs['Retrieval(Scen_RI): C17_Sequential (window race, known finding)'] = {'distinct': r.distinct, 'violated': bool(r.invariants_violated)}
        check.cov['states'] += r.distinct
        check.cov['transitions'] += r.generated


def crash_gen(seed, frac):
    import random

    def gen(shard, nshards):
        rnd = random.Random(seed)
        k = 0
        for scen in SCENARIOS:
            for call in ('sig', 'inspect', 'bind', 'noauto', 'partial', 'hold_drop', 'hold_again'):
                if call not in build(scen)['calls']:
                    continue
                n = count_crossings(scen, call)
                for c in range(0, n + 1):          # 0 = no fault at all: retrieval itself must leave everything as it was
                    for exc in (EXC if c else ['ValueError']):
                        take = c == 0 or rnd.random() < frac or (scen in ALL_CROSSINGS and exc in ('TypeError', 'AttributeError'))
                        if take and k % nshards == shard:
                            yield crash_run('crash/%s-%s-%d-%s' % (scen, call, c, exc), scen, call, c, exc)
                        if take:
                            k += 1
    return gen


def crash_part(check, tier, seed, scratch):
    from .algebra import run_trace_leg
    quick = tier == 'quick'
    model_runs(check, scratch, 'faults')
    run_trace_leg(check, scratch, 'crash-points', crash_gen(seed, 0.12 if quick else 1.0), None, module='Trace_Retrieval', describe=describe, classify=lambda t, c, case: c)
    check.cov['rule'] = (check.cov.get('rule', '') + ' | crash points: %d scenarios (functools.wraps function and chain, __signature__ attribute, forger with and without emulate, modifiers-wrapped '
                         'function and method, as_forged object, wrappers.decorator function) x every crossing from sigtools code into outside code during sigtools.signature / inspect.signature '
                         '(%s) x 5 exception classes; hook events + attribute snapshots validated by the TLC monitor' % (len(SCENARIOS), '12%% sampled' if quick else 'all'))
    check.assumptions += ['fault sites: Python functions outside sigtools called from sigtools frames and getattr/hasattr issued by sigtools; setattr/delattr and container methods are not fault sites',
                          'asynchronous exceptions between two statements of sigtools are not part of the fault model']


SCHED_CASES = [('wraps', ['sig', 'sig']), ('wraps', ['sig', 'inspect']), ('wraps_chain', ['sig', 'sig1']), ('signature_attr', ['sig', 'inspect']), ('as_forged', ['inspect', 'inspect']),
               ('as_forged', ['sig', 'inspect']), ('forger_emulate', ['inspect', 'inspect']), ('modifiers', ['sig', 'sig']), ('method_kwo', ['sig', 'bind']),
               ('decorator', ['inspect', 'sig']), ('wraps', ['sig', 'sig', 'inspect']), ('partial_wraps', ['sig', 'inspect']), ('super_class', ['sig', 'sig']),
               ('wrapper_decorator', ['inspect', 'inspect']), ('forger_function', ['sig', 'inspect']), ('as_forged_class', ['sig', 'inspect']), ('as_forged_subclass', ['sig', 'sig']),
               ('forger_bound_method', ['sig', 'inspect']), ('sig_property', ['sig', 'inspect']), ('combination', ['sig', 'sig']),
               ('forger_emulate_special', ['sig', 'sig']), ('forger_emulate_special', ['sig', 'inspect'])]
# cases whose one-preemption schedules are ALL run in every tier (a race on a first lookup is one specific line)
FULL_ONE = {'forger_emulate_special'}


# cases where the second preemption is SWEPT over every step of the other thread while the first thread is parked part-way (holding what it holds)
SWEEP_CASES = [('method_kwo', ['hold_drop', 'sig']), ('method_kwo', ['hold_drop', 'inspect']), ('signature_attr_upgraded', ['noauto', 'partial']), ('wraps', ['sig', 'sig'])]


def get_blocks(scenario, call):
    """step indices (of a thread running this call alone) spent inside the descriptor's __get__, grouped into consecutive blocks"""
    sc = build(scenario)
    s = Sched([sc['calls'][call]], [(0, None)], Recorder())
    s.run()
    blocks, cur = [], []
    for i, name in enumerate(s.trail[0]):
        if name == '__get__':
            cur.append(i)
        elif cur:
            blocks.append(cur)
            cur = []
    if cur:
        blocks.append(cur)
    return blocks


# three preemptions around the bound-wrapper cache: both threads miss it, both store, one value dies while the other's key lives
GET_SWEEPS = [('method_kwo', ['hold_again', 'sig_gc'])]


def get_sweep_schedules(scen, calls):
    b0, b1 = get_blocks(scen, calls[0]), get_blocks(scen, calls[1])
    if len(b0) < 2 or not b1:
        return
    first0, second0, first1 = b0[0], b0[1], b1[0]
    for n1 in range(first0[0], first0[-1] + 2):
        for n2 in range(first1[0], first1[-1] + 2):
            # thread 0 goes on: finishes its first look-up and stops somewhere before / inside its second one
            for more in range(1, (second0[-1] + 2) - n1):
                yield [(0, n1), (1, n2), (0, more), (1, None), (0, None)]


def sched_gen(seed, n1, n2, sweep_all=False):
    """n1: number of one-preemption schedules per case, n2: of two-preemption ones (None = all one-preemption ones)"""
    import random

    def gen(shard, nshards):
        rnd = random.Random(seed)
        k = 0
        for scen, calls in SCHED_CASES:
            steps = [count_steps(scen, c) for c in calls]
            scheds = []
            one = [(a, b, n) for a in range(len(calls)) for b in range(len(calls)) if a != b and steps[a] for n in range(steps[a] + 1)]
            if n1 is not None and len(one) > n1 and scen not in FULL_ONE:
                one = rnd.sample(one, n1)
            for a, b, n in one:
                scheds.append([(a, n), (b, None), (a, None)])
            for _ in range(n2):
                a, b = rnd.sample(range(len(calls)), 2)
                if not steps[a] or not steps[b]:
                    continue
                scheds.append([(a, rnd.randrange(steps[a] + 1)), (b, rnd.randrange(steps[b] + 1)), (a, None), (b, None)])
            for s in scheds:
                if k % nshards == shard:
                    yield sched_run('sched/%s-%s-%d' % (scen, '+'.join(calls), k), scen, calls, s)
                k += 1
        for scen, calls in GET_SWEEPS:
            for sch in get_sweep_schedules(scen, calls):
                if k % nshards == shard:
                    yield sched_run('getsweep/%s-%s-%d' % (scen, '+'.join(calls), k), scen, calls, sch)
                k += 1
        for scen, calls in SWEEP_CASES + (SCHED_CASES if sweep_all else []):
            steps = [count_steps(scen, c) for c in calls]
            for a in range(len(calls)):
                for b in range(len(calls)):
                    if a == b or not steps[a] or not steps[b]:
                        continue
                    for park in sorted({steps[a] // 4, steps[a] // 2, (3 * steps[a]) // 4}):
                        for n in range(steps[b] + 1):
                            if k % nshards == shard:
                                yield sched_run('sweep/%s-%s-%d' % (scen, '+'.join(calls), k), scen, calls, [(a, park), (b, n), (a, None), (b, None)])
                            k += 1
                    # and the other way round: a is stopped at EVERY step, then b runs part-way (and stays there while a goes on)
                    for park in sorted({steps[b] // 4, steps[b] // 2, (3 * steps[b]) // 4} | set(window_parks(scen, calls[b]))):
                        for n in range(steps[a] + 1):
                            if k % nshards == shard:
                                yield sched_run('sweep2/%s-%s-%d' % (scen, '+'.join(calls), k), scen, calls, [(a, n), (b, park), (a, None), (b, None)])
                            k += 1
    return gen


def stress_run(tid, scenario, calls, rounds):
    """randomized stress with a minimal switch interval: only call start/end are ordered"""
    sc = build(scenario)
    alone = [outcome(build(scenario)['calls'][c]) for c in calls]
    before = snapshot(sc)
    rec = Recorder()
    results = [[] for _ in calls]
    old = sys.getswitchinterval()
    sys.setswitchinterval(1e-6)
    install(rec)
    try:
        def body(t):
            threading.current_thread().verif_tid = t
            for _ in range(rounds):
                results[t].append(outcome(sc['calls'][calls[t]]))
        ths = [threading.Thread(target=body, args=(t,)) for t in range(len(calls))]
        for t in ths:
            t.start()
        for t in ths:
            t.join()
    finally:
        uninstall()
        sys.setswitchinterval(old)
    b, a, changed = snap_compare(before, sc['objs'])
    res = []
    for t, c in enumerate(calls):
        bad = [r for r in results[t] if r != alone[t]]
        res.append({'t': t, 'call': c, 'res': bad[0] if bad else alone[t], 'raised': (bad[0] if bad else alone[t]).startswith('raise:'), 'alone': alone[t], 'again': alone[t]})
    # the stress run keeps only the window events (ordered per thread by the recorder's lock) and one call interval per thread
    # the monitor gets at most ~4000 hook events: the log is cut where NO window is open (a cut in the middle of a window would look like an
    # attribute that is never restored)
    body, open_windows, cut = rec.events, 0, 0
    for pos, x in enumerate(body[:4000]):
        if x['ev'] == 'WindowEnter':
            open_windows += 1
        elif x['ev'] == 'WindowExit':
            open_windows -= 1
        if open_windows == 0:
            cut = pos + 1
    if len(body) <= 4000 and open_windows == 0:
        cut = len(body)
    ev = [{'t': t, 'ev': 'CallStart', 'obj': '-', 'attr': '-'} for t in range(len(calls))] + body[:cut] + [{'t': t, 'ev': 'CallEnd', 'obj': '-', 'attr': '-'} for t in range(len(calls))]
    return {'tid': tid, 'op': 'run', 'kind': 'sched', 'scenario': scenario, 'events': ev, 'before': b, 'after': a, 'changed': changed, 'guard_after': guard_size(),
            'results': res, 'fault': {'k': 0, 'exc': '-', 'site': '-'}, 'points': [],
            'case': {'kind': 'stress', 'scenario': scenario, 'calls': calls, 'schedule': [], 'points': []}}
