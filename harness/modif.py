"""Driver for sigtools.modifiers (C12, C18): build real functions from abstract parameter lists, apply the real decorators,
retrieve the advertised signature through every route and really call the result on the complete call set with
distinguishable values."""
import inspect
import itertools
import json
import random

from . import absig


class Val:
    __slots__ = ('v',)

    def __init__(self, *v):
        self.v = list(v)

    def __repr__(self):
        return 'Val%r' % (self.v,)


def with_meta(ps):
    """distinct default ids / annotation ids per parameter, so that 'defaults and annotations preserved' is observable"""
    out = []
    for i, p in enumerate(ps):
        q = dict(p)
        if q['k'] in ('var', 'vkw'):
            q['dv'], q['an'] = 0, 0
        else:
            q['dv'] = 2 + i if q['d'] else 0
            q['an'] = 1 + i if i % 2 == 0 else 0
        out.append(q)
    return out


SELF = {'n': 'self', 'k': 'pok', 'd': False, 'dv': 0, 'an': 0}


def make(base, name='f'):
    return absig.make_func(base, name=name, body='return locals()')


def encode(x, base, inst=None):
    if inst is not None and x is inst:
        return ['SELF', 0]
    if isinstance(x, Val):
        return x.v
    if isinstance(x, absig.Sentinel) and x.tag == 'D':
        for p in base:
            if p['d'] and p['dv'] == x.id:
                return ['D', p['n']]
        return ['D?', x.id]
    if x is None:
        return ['NONE', 0]
    if isinstance(x, tuple):
        return [encode(y, base, inst) for y in x]
    if isinstance(x, dict):
        return {k: encode(v, base, inst) for k, v in x.items()}
    return ['?', repr(x)]


_AUTO_DECOS = {}


def decorate(f, form, po=(), kwo=(), order='po_first', s=None, extra=(), exc=()):
    """applies the real decorators; raises whatever they raise"""
    from sigtools import modifiers
    if form == 'names':
        steps = [('po', po), ('kwo', kwo)] if order == 'po_first' else [('kwo', kwo), ('po', po)]
        for kind, names in steps:
            if not names:
                continue
            f = (modifiers.posoargs if kind == 'po' else modifiers.kwoargs)(*names)(f)
        return f
    if form in ('names_over_start', 'names_over_end'):
        # an explicit-names modifier applied on top of a start= / end= one
        inner = modifiers.kwoargs(start=s)(f) if form == 'names_over_start' else modifiers.posoargs(end=s)(f)
        if po:
            inner = modifiers.posoargs(*po)(inner)
        if kwo:
            inner = modifiers.kwoargs(*kwo)(inner)
        return inner
    if form in ('start_over_names', 'end_over_names'):
        inner = f
        if po:
            inner = modifiers.posoargs(*po)(inner)
        if kwo:
            inner = modifiers.kwoargs(*kwo)(inner)
        return modifiers.kwoargs(start=s)(inner) if form == 'start_over_names' else modifiers.posoargs(end=s)(inner)
    if form == 'start':
        return modifiers.kwoargs(*extra, start=s)(f)
    if form == 'end':
        return modifiers.posoargs(*extra, end=s)(f)
    if form == 'auto':
        if exc:
            # ONE decorator object per exceptions list, applied to every function that asks for it (a decorator is reusable)
            key = tuple(exc)
            if key not in _AUTO_DECOS:
                _AUTO_DECOS[key] = modifiers.autokwoargs(exceptions=list(exc))
            return _AUTO_DECOS[key](f)
        return modifiers.autokwoargs(f)
    if form == 'names_then_annotate_ret':
        # a return annotation recorded afterwards: the translator is prepared a second time, what it does must not change
        g = f
        if po:
            g = modifiers.posoargs(*po)(g)
        if kwo:
            g = modifiers.kwoargs(*kwo)(g)
        return modifiers.annotate(absig.AN[9])(g)
    raise ValueError(form)


def routes(target):
    import sigtools
    from sigtools import signatures
    out = []
    for name, thunk in (('inspect', lambda: inspect.signature(target)), ('sigtools', lambda: sigtools.signature(target)),
                        ('sigtools-noauto', lambda: sigtools.signature(target, auto=False)), ('signatures', lambda: signatures.signature(target))):
        try:
            r = thunk()
            out.append({'route': name, 'tag': 'sig', 'ps': absig.project_params(r)})
        except Exception as e:  # noqa
            out.append({'route': name, 'tag': 'other:' + type(e).__name__, 'ps': []})
    return out


def shapes(base, bound):
    names = [p['n'] for p in base if not (bound and p['n'] == 'self')] + ['zz']
    npos = sum(1 for p in base if p['k'] in ('po', 'pok')) - (1 if bound else 0)
    for np_ in range(npos + 2):
        for k in range(len(names) + 1):
            for kw in itertools.combinations(names, k):
                yield np_, list(kw)


def call_all(target, base, bound, inst):
    calls = []
    for np_, kw in shapes(base, bound):
        args = tuple(Val('P', j + 1) for j in range(np_))
        kwargs = {k: Val('K', k) for k in kw}
        try:
            r = target(*args, **kwargs)
            calls.append({'np': np_, 'kw': kw, 'ok': True, 'map': encode(r, base, inst), 'exc': ''})
        except BaseException as e:  # noqa
            calls.append({'np': np_, 'kw': kw, 'ok': False, 'map': {}, 'exc': type(e).__name__})
    return calls


def modif_event(tid, base0, bound, form, po=(), kwo=(), order='po_first', s='', extra=(), exc=()):
    base = with_meta(([SELF] if bound else []) + list(base0))
    if bound and base0 and base0[0]['k'] == 'po':
        base[0] = dict(base[0], k='po')
    f = make(base)
    e = {'tid': tid, 'op': 'modif', 'bindexc': '', 'base': base, 'bound': bound, 'form': form, 'po': list(po), 'kwo': list(kwo), 'order': order,
         's': s, 'extra': list(extra), 'exc': list(exc), 'adv': [], 'calls': [],
         'case': {'base0': base0, 'bound': bound, 'form': form, 'po': list(po), 'kwo': list(kwo), 'order': order, 's': s, 'extra': list(extra), 'exc': list(exc)}}
    try:
        d = decorate(f, form, po, kwo, order, s, extra, exc)
    except ValueError:
        e['decorated'] = 'ValueError'
        return e
    except Exception as ex:  # noqa
        e['decorated'] = 'other:' + type(ex).__name__
        return e
    e['decorated'] = 'ok'
    e['bindexc'] = ''
    inst = None
    target = d
    if bound:
        K = type('K', (object,), {'m': d})
        inst = K()
        try:
            target = inst.m
        except Exception as ex:  # noqa
            e['bindexc'] = type(ex).__name__
            return e
    e['adv'] = routes(target)
    e['calls'] = call_all(target, base, bound, inst)
    if bound:
        for c in e['calls']:
            c['map'].pop('self', None)         # the contract is stated at the bound level (Trace_Modifiers)
    return e


def selections(base0, bound, rnd, nboth=8, nstart=6, nend=6, maxsel=2):
    """the decorator applications tried for one base function"""
    pool = [p['n'] for p in base0] + ['zz']
    subs = [list(c) for k in range(0, maxsel + 1) for c in itertools.combinations(pool, k)]
    selfpo = ['self'] if bound else []          # a positional-only selection of a method has to include the instance parameter
    for names in subs:
        if names:
            yield dict(form='names', kwo=names)
            yield dict(form='names', po=selfpo + names)
    both = [(a, b) for a in subs for b in subs if a and b]
    for a, b in rnd.sample(both, min(nboth, len(both))):
        yield dict(form='names', po=selfpo + a, kwo=b, order=rnd.choice(['po_first', 'kwo_first']))
    ex1 = [[]] + [[x] for x in pool]
    st = [(s, x) for s in pool for x in ex1]
    for s, x in rnd.sample(st, min(nstart, len(st))):
        yield dict(form='start', s=s, extra=x)
    for s, x in rnd.sample(st, min(nend, len(st))):
        yield dict(form='end', s=s, extra=x)
    for names in subs:
        yield dict(form='auto', exc=names)
    # an explicit-names modifier stacked on a start= / end= one
    one = [x for x in subs if len(x) == 1]
    for _ in range(4):
        if not one:
            break
        sname = rnd.choice(pool)
        if rnd.random() < 0.5:
            yield dict(form='names_over_start', s=sname, po=selfpo + rnd.choice(one))
        else:
            yield dict(form='names_over_end', s=sname, kwo=rnd.choice(one))
    for _ in range(4):
        if not one:
            break
        sname = rnd.choice(pool)
        if rnd.random() < 0.5:
            yield dict(form='start_over_names', s=sname, po=selfpo + rnd.choice(one))
        else:
            yield dict(form='end_over_names', s=sname, kwo=rnd.choice(one))
    for names in subs[:6]:
        if names:
            yield dict(form='names_then_annotate_ret', kwo=names)
    if bound:
        yield dict(form='end', s='self', extra=[])


def describe(e, case):
    key = json.dumps([e['base'], e['bound'], e['form'], e['po'], e['kwo'], e['order'], e['s'], e['extra'], e['exc']], sort_keys=True)
    n_ok = sum(1 for c in e['calls'] if c['ok'])
    what = {'names': 'posoargs%r kwoargs%r (%s)' % (tuple(e['po']), tuple(e['kwo']), e['order']), 'start': 'kwoargs(%s start=%r)' % (e['extra'], e['s']),
            'names_over_start': 'posoargs%r kwoargs%r over kwoargs(start=%r)' % (tuple(e['po']), tuple(e['kwo']), e['s']),
            'names_over_end': 'posoargs%r kwoargs%r over posoargs(end=%r)' % (tuple(e['po']), tuple(e['kwo']), e['s']),
            'start_over_names': 'kwoargs(start=%r) over posoargs%r kwoargs%r' % (e['s'], tuple(e['po']), tuple(e['kwo'])),
            'end_over_names': 'posoargs(end=%r) over posoargs%r kwoargs%r' % (e['s'], tuple(e['po']), tuple(e['kwo'])),
            'end': 'posoargs(%s end=%r)' % (e['extra'], e['s']), 'auto': 'autokwoargs(exceptions=%r)' % (e['exc'],),
            'names_then_annotate_ret': 'annotate(<ret>) over posoargs%r kwoargs%r' % (tuple(e['po']), tuple(e['kwo']))}[e['form']]
    adv = next((absig.sig_str(a['ps']) for a in e['adv'] if a['tag'] == 'sig'), '-')
    text = '%s on %s def f%s -> %s, advertises %s; %d shapes called, %d accepted' % (
        what, 'method' if e['bound'] else 'function', absig.sig_str(e['base']), e['decorated'], adv, len(e['calls']), n_ok)
    return key, False, text
