"""Statement-level programs for automatic discovery (C05, C06).

A program is a behaviour of spec/AutoFwd.tla: a sequence of statement records.  This module renders it to Python source
(in several syntactic variants that the property says are irrelevant), lets the REAL walker and the real sigtools.signature
analyse it, computes the equivalent explicit declaration with the public algebra only, executes it on the call set and
OBSERVES the runtime ghost (was each star parameter still the pristine object at every execution of every forwarding call).
One JSON event per program; spec/Trace_AutoFwd.tla evaluates the clauses.
"""
import itertools
import json
import sys
import types

from . import absig, progs

S = progs.S
_benign = types.ModuleType('verif_benign')


def _benign_getattr(name):
    # a fresh object per import: programs must not share state
    if name == 'EMPTY_K':
        return {}
    if name == 'EMPTY_A':
        return ()
    raise AttributeError(name)


_benign.__getattr__ = _benign_getattr
_benign.__file__ = __file__
sys.modules['verif_benign'] = _benign


def P(n, k, d=False):
    return {'n': n, 'k': k, 'd': d, 'dv': 2 if d else 0, 'an': 0}


OUTERS = [
    [P('p', 'pok'), P('args', 'var'), P('kwargs', 'vkw')],
    [P('args', 'var'), P('q', 'kwo', True), P('kwargs', 'vkw')],
    [P('p', 'po'), P('o', 'pok', True), P('args', 'var'), P('kwargs', 'vkw')],
]


def callee_shapes(names):
    x, y, z, t = names
    return [
        # every parameter optional: a benign rebinding of a star (to () / {}) can then never make the call fail by itself
        [P(x, 'pok', True), P(y, 'pok', True), P(z, 'kwo', True), P(t, 'kwo', True)],
        [P(x, 'po', True), P('a2' + x, 'var'), P(z, 'kwo', True), P(t, 'kwo', True), P('k2' + x, 'vkw')],
        # with required parameters: only used by programs without taint statements
        [P(x, 'pok'), P(y, 'pok', True), P(z, 'kwo'), P(t, 'kwo', True)],
    ]


# both callees share the optional keyword-only parameter t: the key that mutating taint statements touch must be harmless for every callee
CALLEE_NAMES = [('x', 'y', 'z', 't'), ('u', 'v', 'r', 't')]
S2 = absig.Sentinel('S', 2)
TOP_CONTEXTS = ['expr', 'assign', 'if', 'try', 'with', 'compr', 'decoyarg', 'for', 'ternary', 'boolop']
# further statement forms in which the call is executed exactly once (variant 3, which also reaches the callees through an attribute: NS.w1)
TOP_CONTEXTS3 = ['while', 'else', 'finally', 'withitem', 'fstring', 'subscript', 'assert', 'starlist', 'elif', 'except_else', 'dictvalue', 'compare',
                 'attr_of_result', 'attr_store_on_result', 'except_body', 'second_star', 'attr2_of_result', 'method_on_result', 'attr_in_argument']


def call_text(callee, s, n, names, va, vk, k):
    parts = ['S'] * n
    if s.get('arg') == 'popK':
        parts.insert(0, "%s.pop('t', None)" % vk)       # evaluated (and walked) before **kwargs is expanded (resolved)
    elif s.get('arg') == 'handK':
        parts.insert(0, 'H(%s)' % vk)
    if s['sa'] in ('own', 'two'):
        parts.append('*' + va)
    if s['sa'] in ('other', 'two'):
        parts.append('*OA')
    parts += ['%s=S' % nm for nm in names]
    if s['sk'] in ('own', 'two'):
        parts.append('**' + vk)
    if s['sk'] in ('other', 'two'):
        parts.append('**OK')
    return '%s(%s)' % (callee, ', '.join(parts))


def in_context(ctx, call, i):
    if ctx == 'expr':
        return [call]
    if ctx == 'assign':
        return ['r%d = %s' % (i, call)]
    if ctx == 'if':
        return ['if SWT:', '    ' + call]
    if ctx == 'try':
        return ['try:', '    ' + call, 'except ZeroDivisionError:', '    pass']
    if ctx == 'with':
        return ['with CM:', '    ' + call]
    if ctx == 'compr':
        return ['[%s for _ in (0,)]' % call]
    if ctx == 'decoyarg':
        return ['G(%s)' % call]
    if ctx == 'for':
        return ['for _i%d in (0,):' % i, '    ' + call]
    if ctx == 'ternary':
        return ['r%d = %s if SWT else None' % (i, call)]
    if ctx == 'boolop':
        return ['r%d = SWT and %s' % (i, call)]
    if ctx == 'while':
        return ['while SWT:', '    ' + call, '    break']
    if ctx == 'else':
        return ['if SWF:', '    pass', 'else:', '    ' + call]
    if ctx == 'elif':
        return ['if SWF:', '    pass', 'elif SWT:', '    ' + call]
    if ctx == 'finally':
        return ['try:', '    pass', 'finally:', '    ' + call]
    if ctx == 'except_else':
        return ['try:', '    pass', 'except ZeroDivisionError:', '    pass', 'else:', '    ' + call]
    if ctx == 'withitem':
        return ['with CMV(%s):' % call, '    pass']
    if ctx == 'fstring':
        return ["r%d = f'{%s}'" % (i, call)]
    if ctx == 'subscript':
        return ['r%d = {None: 0}[%s]' % (i, call)]
    if ctx == 'assert':
        return ['assert %s is None' % call]
    if ctx == 'starlist':
        return ['r%d = [*(%s or ())]' % (i, call)]
    if ctx == 'dictvalue':
        return ['r%d = {0: %s}' % (i, call)]
    if ctx == 'compare':
        return ['r%d = None is %s' % (i, call)]
    if ctx == 'attr_of_result':
        return ['r%d = %s.__class__' % (i, call)]
    if ctx == 'attr_store_on_result':
        return ['NSX.last = (%s).__class__' % call]
    if ctx == 'except_body':
        return ['try:', '    raise ZeroDivisionError()', 'except ZeroDivisionError:', '    ' + call]
    if ctx == 'attr2_of_result':
        return ['r%d = %s.__class__.__name__' % (i, call)]
    if ctx == 'method_on_result':
        return ['r%d = %s.__eq__(None)' % (i, call)]
    if ctx == 'attr_in_argument':
        return ['G(%s.__class__)' % call]
    if ctx == 'second_star':
        return ['G(*(), *(%s or ()))' % call]
    raise ValueError(ctx)


def taint_text(s, va, vk, tkey, same=False):
    v = va if s['tgt'] == 'A' else vk
    empty = '()' if s['tgt'] == 'A' else '{}'
    how = s['how']
    if how == 'rebind':
        return ['%s = %s' % (v, empty)]
    if how == 'aug':
        return ['%s += ()' % v] if s['tgt'] == 'A' else ['%s |= {%r: S}' % (v, tkey)]
    if how == 'fortarget':
        return ['for %s in (%s,):' % (v, empty), '    pass']
    if how == 'withas':
        return ['with CMV(%s) as %s:' % (empty, v), '    pass']
    if how == 'walrus':
        return ['(%s := %s)' % (v, empty)]
    if how == 'import_as':
        return ['from verif_benign import %s as %s' % ('EMPTY_A' if s['tgt'] == 'A' else 'EMPTY_K', v)]
    if how == 'match_capture':
        return ['match %s:' % empty, '    case %s:' % v, '        pass']
    if how == 'default_capture':
        # (same: the capturing parameter is spelled like the captured star -- the default is still evaluated in the enclosing scope)
        return ['H(lambda %s=%s: %s)' % (v, v, v)] if same else ['H(lambda c=%s: c)' % v]
    if how == 'delete':
        return ['del %s' % v]
    if how == 'handover':
        return ['H(o=%s)' % v] if same else ['H(%s)' % v]            # (same: handed over BY KEYWORD)
    if how == 'handover_expr':
        return ['H(o=[%s] if SWT else None)' % v] if same else ['H([%s] if SWT else None)' % v]
    if how == 'contains':
        return ['%r in %s' % (tkey, v)]
    if how == 'item_set':
        return ['%s[%r] = S' % (v, tkey)]
    if how == 'item_del':
        return ['try:', '    del %s[%r]' % (v, tkey), 'except KeyError:', '    pass']
    if how == 'method':
        return ['%s.pop(%r, None)' % (v, tkey)]
    if how == 'method_ro':
        return ['%s.count(S)' % v] if s['tgt'] == 'A' else ['%s.get(%r)' % (v, tkey)]
    if how == 'nonlocal':
        return ['nonlocal %s' % v, '%s = %s' % (v, empty)]
    raise ValueError(how)


def _prog_salt(prog):
    import json, zlib
    return zlib.crc32(json.dumps(prog, sort_keys=True).encode())


def render(prog, o, choice, variant=0):
    """prog: statement records; choice: per statement {'w': callee index, 'n': n, 'names': [...]} (fwd only).
    -> (source, line -> statement id)"""
    va = next(p['n'] for p in o if p['k'] == 'var')
    vk = next(p['n'] for p in o if p['k'] == 'vkw')
    body, linemap, late = [], {}, []
    gname = 'g%d_' if variant != 2 else 'helper%d_'
    wref = 'NS.w%d' if variant == 3 else 'w%d'

    def emit(lines, sid):
        for l in lines:
            body.append(l)
            linemap[len(body)] = sid

    for i, s in enumerate(prog, 1):
        c = choice[i - 1]
        if variant == 2:
            emit(['G(S)'], 0)                  # unrelated statements between the real ones
        if s['k'] == 'decoy':
            emit(['G(S)'], i)
        elif s['k'] == 'fwd':
            if c.get('relay'):
                # through an intermediate forwarder that takes its callee as first argument: R(w1, <the same arguments>)
                call = call_text('R', s, c['n'], c['names'], va, vk, i).replace('R(', 'R(%s, ' % (wref % c['w']), 1).replace(', )', ')')
            else:
                call = call_text(wref % c['w'], s, c['n'], c['names'], va, vk, i)
            if s['ctx'] == 'top':
                ctx = 'expr' if variant == 0 else TOP_CONTEXTS3[(i + _prog_salt(prog)) % len(TOP_CONTEXTS3)] if variant == 3 else TOP_CONTEXTS[(i + variant) % len(TOP_CONTEXTS)]
                emit(in_context(ctx, call, i), i)
            elif s['ctx'] == 'dead':
                emit(['if SWF:', '    ' + call], i)
            elif s['ctx'] == 'lambda_now':
                emit(['(lambda: %s)()' % call], i)
            else:
                g = gname % i
                emit(['def %s():' % g, '    return ' + call], i)
                if s['ctx'] == 'nested_now':
                    emit(['%s()' % g], i)
                elif s['ctx'] == 'nested_after':
                    late.append((g, i))
        else:
            tkey = c['tkey']
            lines = taint_text(s, va, vk, tkey, c.get('same', False))
            if s['ctx'] == 'top':
                emit(lines, i)
            elif s['ctx'] == 'dead':
                emit(['if SWF:'] + ['    ' + l for l in lines], i)
            else:
                g = gname % i
                emit(['def %s():' % g] + ['    ' + l for l in lines], i)
                if s['ctx'] == 'nested_now':
                    emit(['%s()' % g], i)
                elif s['ctx'] == 'nested_after':
                    late.append((g, i))
    for g, i in late:
        emit(['%s()' % g], i)
    emit(['return None'], 0)
    head = ['def f(%s):' % absig.render_params(o)]
    src = '\n'.join(head + ['    ' + l for l in body]) + '\n'
    return src, {ln + 1: sid for ln, sid in linemap.items()}      # +1: the def line


class Recorder:
    """what the callees and the helper functions observe at run time"""

    def __init__(self):
        self.reset(None, None, None)

    def reset(self, fcode, va, vk):
        self.fcode, self.va, self.vk = fcode, va, vk
        self.entry = None
        self.handed = set()
        self.execs = []

    def profile(self, frame, event, arg):
        if event == 'call' and frame.f_code is self.fcode and self.entry is None:
            loc = frame.f_locals
            a, k = loc.get(self.va), loc.get(self.vk)
            self.entry = (a, k, tuple(a), dict(k))

    def handover(self, obj):
        if isinstance(obj, dict):
            self.handed.add(id(obj))
        elif isinstance(obj, (list, tuple)):
            for x in obj:
                self.handover(x)
        elif isinstance(obj, types.FunctionType):
            for d in obj.__defaults__ or ():          # captured as a default value
                if isinstance(d, dict):
                    self.handed.add(id(d))

    def callee_called(self, linemap):
        if self.entry is None:
            return
        f = sys._getframe(3)        # 0 this method, 1 the CALLED lambda, 2 the callee, 3 whoever called it
        sid = None
        # the statement: the innermost frame of the program's file below the callee
        while f is not None:
            if f.f_code.co_filename == self.fcode.co_filename:
                sid = linemap.get(f.f_lineno - self.fcode.co_firstlineno + 1)
                if sid:
                    break                      # (a relay function of the same file is skipped: its lines belong to no statement)
            f = f.f_back
        if f is None:
            return
        while f is not None and f.f_code is not self.fcode:
            f = f.f_back
        if f is None or not sid:
            return
        loc = f.f_locals
        a0, k0, acopy, kcopy = self.entry
        a, k = loc.get(self.va, None), loc.get(self.vk, None)
        prA = a is a0 and isinstance(a, tuple) and tuple(a) == acopy
        prK = k is k0 and isinstance(k, dict) and dict(k) == kcopy and id(k) not in self.handed
        self.execs.append({'id': sid, 'prA': prA, 'prK': prK})


REC = Recorder()


def build(prog, o, ws, choice, variant):
    """compile one variant; -> (globals, filename, linemap)"""
    src, linemap = render(prog, o, choice, variant)
    L = ['import contextlib']
    for k, w in enumerate(ws, 1):
        L += ['def w%d(%s):' % (k, absig.render_params(w)), '    CALLED()', '    return None']
    L += ['def R(fn, *a, **k):', '    return fn(*a, **k)', 'import types', 'NS = types.SimpleNamespace(%s)' % ', '.join('w%d=w%d' % (k, k) for k in range(1, len(ws) + 1))]
    pre = '\n'.join(L) + '\n'
    nlines = pre.count('\n')
    full = pre + src

    class CMV:
        def __init__(self, v):
            self.v = v

        def __enter__(self):
            return self.v

        def __exit__(self, *a):
            return False
    import contextlib
    lm = {}
    import types as _types
    extra = {'NSX': _types.SimpleNamespace(), 'SWT': True, 'SWF': False, 'CM': contextlib.nullcontext(), 'CMV': CMV, 'G': lambda *a, **k: None,
             'H': (lambda *a, **k: [REC.handover(x) for x in list(a) + list(k.values())] and None), 'OA': (), 'OK': {}, 'CALLED': lambda: REC.callee_called(lm)}
    g, fname = progs.compile_module(full, extra)
    lm.update(linemap)
    return g, fname, full


def retrieve_full(thunk, fns):
    from sigtools import signatures
    try:
        r = thunk()
    except signatures.IncompatibleSignatures:
        return {'tag': 'incompat'}
    except ValueError:
        return {'tag': 'valueerror'}
    except Exception as e:  # noqa
        return {'tag': 'other', 'exc': type(e).__name__}
    out = absig.project(r, fns)
    out['tag'] = 'sig'
    return out


def declared(f, g, prog, choice, fns):
    """the equivalent explicit declaration, computed with the public algebra only (independent of the AST walker):
    forwards(f, callee, n, *names, flags) for the call shape actually written, merged over the forwarding calls.
    merge is not commutative in the order of provenance lists and in the names of star parameters, and the property does not
    fix an order: the alternatives are the source order and "calls of the body first, calls inside nested functions after"."""
    from sigtools import specifiers, signatures
    items = []
    try:
        for i, s in enumerate(prog, 1):
            if s['k'] != 'fwd':
                continue
            uva, uvk = s['sa'] == 'own', s['sk'] == 'own'
            if not (uva or uvk):
                continue
            c = choice[i - 1]
            if c.get('relay'):
                # the declaration equivalent to R(w, ...): forward to R as it is when its first argument is w (public API: signature(obj, args=...))
                inner = specifiers.signature(g['R'], args=(g['w%d' % c['w']],))
                sig = signatures.forwards(signatures.signature(f), inner, c['n'] + 1, *c['names'], use_varargs=uva, use_varkwargs=uvk,
                                          hide_args=s['sa'] in ('other', 'two'), hide_kwargs=s['sk'] in ('other', 'two'))
            else:
                sig = specifiers.forwards(f, g['w%d' % c['w']], c['n'], *c['names'], use_varargs=uva, use_varkwargs=uvk,
                                          hide_args=s['sa'] in ('other', 'two'), hide_kwargs=s['sk'] in ('other', 'two'))
            items.append((s['ctx'] in ('top', 'dead'), sig))
    except ValueError:
        return [{'tag': 'valueerror'}]
    if not items:
        return [{'tag': 'none'}]
    orders = [[sg for _, sg in items], [sg for top, sg in items if top] + [sg for top, sg in items if not top]]
    alts = []
    for sigs in orders:
        try:
            r = signatures.merge(*sigs)
        except ValueError:
            out = {'tag': 'valueerror'}
        else:
            out = absig.project(r, fns)
            out['tag'] = 'sig'
        if out not in alts:
            alts.append(out)
    return alts


def real_calls(f, callee_names, linemap_unused=None):
    """what the real walker extracted, restricted to calls of the program's callees, keyed by source line"""
    from sigtools import _autoforwards, _util
    tree = _util.get_ast(f)
    v = _autoforwards.CallListerVisitor(tree)
    out = []
    for c in v.calls:
        w = c.wrapped
        name = w.name if isinstance(w, _autoforwards.Name) else None
        if name == 'R' and c.args and isinstance(c.args[0], _autoforwards.Name):
            name = c.args[0].name              # R(w1, ...): the callee is the first argument
        if name in callee_names:
            out.append({'w': name, 'useA': bool(c.use_varargs), 'hideA': bool(c.hide_args), 'useK': bool(c.use_varkwargs), 'hideK': bool(c.hide_kwargs)})
    return out, tree


def shapes(names, maxpos, kwmax):
    for np_ in range(maxpos + 1):
        for k in range(min(kwmax, len(names)) + 1):
            for kw in itertools.combinations(names, k):
                yield np_, kw


def program_event(tid, prog, o, ws, choice, kwmax=2, variants=(1, 2, 3)):
    import sigtools
    from sigtools import signatures
    taintfree = all(s['k'] != 'taint' and s.get('arg', '-') == '-' for s in prog)
    # the explicit declaration is also the expected value when the only "taints" are reads of the TUPLE (handing *args to other code cannot change it)
    declarable = all((s['k'] != 'taint' and s.get('arg', '-') == '-') or (s['k'] == 'taint' and s['tgt'] == 'A' and s['how'] in ('handover', 'handover_expr'))
                     for s in prog)
    fns = absig.FnTable()
    fnames = []
    try:
        g, fname, src = build(prog, o, ws, choice, 0)
        fnames.append(fname)
        f = g['f']
        fns.add(f, 'f1')
        for k in range(len(ws)):
            fns.add(g['w%d' % (k + 1)], 'w%d' % (k + 1))
        fns.add(g['R'], 'R')
        reported = retrieve_full(lambda: sigtools.signature(f), fns)
        plain = retrieve_full(lambda: signatures.signature(f), fns)
        decl = declared(f, g, prog, choice, fns)
        try:
            rc, tree = real_calls(f, {'w%d' % (k + 1) for k in range(len(ws))})
            # map the walker's calls to statement ids: through the source line of the call node is not available from Call records,
            # so the order is used: the walker appends top-level calls in source order and deferred ones afterwards in source order
        except Exception as e:  # noqa
            rc = [{'w': 'ERR:' + type(e).__name__, 'useA': False, 'hideA': False, 'useK': False, 'hideK': False}]
        vres = []
        for v in variants:
            gv, fnv, _ = build(prog, o, ws, choice, v)
            fnames.append(fnv)
            fv = gv['f']
            r = retrieve_full(lambda: sigtools.signature(fv), absig.FnTable())
            vres.append({'tag': r['tag'], 'ps': r.get('ps', [])})
        # ---- ghost observation: one run with the fewest arguments
        va = next(p['n'] for p in o if p['k'] == 'var')
        vk = next(p['n'] for p in o if p['k'] == 'vkw')
        nreq = sum(1 for p in o if p['k'] in ('po', 'pok'))        # every positional parameter, so that the extra one lands in *args
        kwreq = {p['n']: S for p in o if p['k'] == 'kwo' and not p['d']}
        REC.reset(f.__code__, va, vk)
        sys.setprofile(REC.profile)
        ghost_exc = ''
        try:
            # one surplus positional and the key the mutating statements touch, so that every rebinding / mutation is OBSERVABLE
            f(*([S] * nreq + [S2]), **dict(kwreq, t=S2))
        except Exception as e:  # noqa
            ghost_exc = type(e).__name__
        finally:
            sys.setprofile(None)
        obs = list(REC.execs)
        REC.reset(None, None, None)
        # ---- execution on the call set
        names = progs.named_names(o, *ws) + ['zz']
        maxpos = progs.npos(o) + sum(progs.npos(w) for w in ws) + 1
        codes = {f.__code__} | {c for c in f.__code__.co_consts if hasattr(c, 'co_code')}
        bo, bi, other = [], [], []
        for np_, kw in shapes(names, maxpos, kwmax):
            try:
                f(*([S] * np_), **{k: S for k in kw})
            except TypeError:
                where = progs.classify_typeerror(sys.exc_info()[2], codes)
                (bo if where == 'outer' else bi).append({'np': np_, 'kw': list(kw)})
            except Exception as e:  # noqa
                other.append({'np': np_, 'kw': list(kw), 'exc': type(e).__name__})
    finally:
        for fn in fnames:
            progs.drop_cache(fn)
    return {'tid': tid, 'op': 'afprog', 'prog': prog, 'o': o, 'ws': ws,
            'wof': [c.get('w', 0) for c in choice], 'nn': [c.get('n', 0) for c in choice], 'names': [c.get('names', []) for c in choice],
            'real_calls': rc, 'obs_execs': obs, 'ghost_exc': ghost_exc, 'reported': reported, 'plain': plain, 'declared': decl,
            'taintfree': taintfree, 'declarable': declarable, 'variants': vres, 'bad_outer': bo, 'bad_inner': bi, 'other_exc': other,
            'maxpos': maxpos, 'kwpool': names, 'kwmax': kwmax,
            'case': {'prog': prog, 'o': o, 'ws': ws, 'choice': choice, 'src': src}}


def choose(prog, rnd, ncallee, same_callee, relay=False):
    """the orthogonal dimensions the namespace machine does not see: which callee, how many positionals, which names"""
    out = []
    for i, s in enumerate(prog):
        if s['k'] == 'fwd':
            w = 1 if same_callee else 1 + (i % ncallee)
            zname = CALLEE_NAMES[w - 1][2]
            n = 0 if s.get('arg', '-') != '-' else rnd.choice([0, 0, 1])       # the argument expression already is one written positional
            # a name handed over as an argument is Unknown to the walker from then on (it may have been rebound by the code it was handed to):
            # a callee goes through the relay only if it is used exactly once in the body (processing order is not source order)
            use_relay = relay and s.get('arg', '-') == '-' and not any(t['k'] == 'fwd' and (1 if same_callee else 1 + (j % ncallee)) == w
                                                                         for j, t in enumerate(prog) if j != i)
            out.append({'w': w, 'n': n, 'names': rnd.choice([[], [], [zname]]), 'relay': use_relay})
        elif s['k'] == 'taint':
            out.append({'tkey': CALLEE_NAMES[0][3], 'same': rnd.random() < 0.5})
        else:
            out.append({})
    return out


def parse_behaviours(tlc_result):
    out = []
    for fields in tlc_result.lines('BEH'):
        out.append(json.loads('|'.join(fields)))
    return out
