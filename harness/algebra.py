"""Drivers for the algebra family: run the REAL merge/embed/mask/forwards/partial over the universe
exported by TLC, write ndjson events, have TLC (Trace_Algebra) evaluate the contracts on them."""
import functools
import itertools
import json
import multiprocessing
import os
import random
import warnings

from . import absig, tlc
from .common import use_repo

FLAGS0 = {'n': 0, 'names': [], 'uva': True, 'uvk': True, 'ha': False, 'hk': False, 'hva': False, 'hvk': False,
          'partial': False, 'vals': {}, 'pobj': '-'}


def flags(**kw):
    f = dict(FLAGS0)
    f.update(kw)
    return f


class Universe:
    """real functions for every abstract signature, one per input slot"""

    def __init__(self, sigs, slots=3, mode='function'):
        """mode: 'function' | 'fresh' (every function gets its own, equal but not identical, default objects) |
        'class' / 'instance' (the signature is read from a class's constructor / a callable instance: objects without __code__)"""
        self.sigs = sigs
        self.slots = slots
        self.mode = mode
        self._funcs = {}
        self.fns = absig.FnTable()

    def func(self, i, slot):
        key = (i, slot)
        f = self._funcs.get(key)
        if f is None:
            ps = self.sigs[i]
            if self.mode == 'fresh':
                f = absig.make_func(ps, name='f%d' % slot, extra_globals={repr(v): absig.EqSentinel(v.tag, v.id) for v in absig.DV.values()})
            elif self.mode in ('class', 'instance'):
                kind = 'po' if ps and ps[0]['k'] == 'po' else 'pok'
                meth = absig.make_func([{'n': 'self', 'k': kind, 'd': False, 'dv': 0, 'an': 0}] + list(ps), name='__init__' if self.mode == 'class' else '__call__',
                                       body='return None')
                K = type('f%d' % slot, (object,), {meth.__name__: meth})
                f = K if self.mode == 'class' else K()
                self.fns.add(f, 'f%d' % slot)
            else:
                f = absig.make_func(ps, name='f%d' % slot)
            self._funcs[key] = f
        return f

    def fid(self, obj):
        # functions made for slot k are called fk; anything else gets its own id
        name = getattr(obj, '__name__', None)
        if isinstance(name, str) and name.startswith('f') and name[1:].isdigit() and getattr(obj, '__code__', None) is not None \
                and obj.__code__.co_filename.startswith('<verif-'):
            return name
        return self.fns.get(obj)

    def sig(self, i, slot):
        from sigtools import signatures
        return signatures.signature(self.func(i, slot))


class _Fns:
    def __init__(self, u):
        self.u = u

    def get(self, obj):
        return self.u.fid(obj)


def outcome(u, thunk):
    """runs thunk() (a call into the real algebra) and abstracts result or exception"""
    from sigtools import signatures
    try:
        with warnings.catch_warnings():
            warnings.simplefilter('error', DeprecationWarning)
            r = thunk()
    except signatures.IncompatibleSignatures:
        return {'tag': 'incompat'}, None
    except ValueError as e:
        return {'tag': 'valueerror', 'exc': type(e).__name__}, None
    except BaseException as e:  # noqa
        return {'tag': 'other', 'exc': type(e).__name__}, None
    out = absig.project(r, _Fns(u))
    out['tag'] = 'sig'
    out['upgraded'] = isinstance(r, signatures.UpgradedSignature) and all(
        isinstance(p, signatures.UpgradedParameter) for p in r.parameters.values())
    return out, r


def event(u, tid, op, sigs, thunk, fl=None, plain=True, pure=False, case=None):
    fns = _Fns(u)
    ins = [absig.project(s, fns) for s in sigs]
    ids_in = list(itertools.chain.from_iterable(absig.ids_of(s) for s in sigs)) if pure else []
    out, real = outcome(u, thunk)
    e = {'tid': tid, 'op': op, 'ins': ins, 'flags': fl or FLAGS0, 'out': out, 'plain': plain, 'case': case}
    if pure:
        e['after'] = [absig.project(s, fns) for s in sigs]
        e['before'] = ins
        ids_out = absig.ids_of(real) if real is not None else []
        table = {}
        e['ids_in'] = [table.setdefault(x, len(table) + 1) for x in ids_in]
        e['ids_out'] = [table.setdefault(x, len(table) + 1) for x in ids_out]
    return e


def law_event(u, tid, law, thunks, cmp='all', case=None, pre='none', ins=(), side=True):
    """several REAL computations the property says are equal; cmp: ps | all | starnames | subseq | params"""
    fns = _Fns(u)
    results = [outcome(u, t)[0] for t in thunks]
    return {'tid': tid, 'op': 'law', 'law': law, 'results': results, 'cmp': cmp, 'pre': pre, 'side': bool(side),
            'ins': [absig.project(s, fns) for s in ins], 'case': case}


# ---------------------------------------------------------------------------------------------------
def validate_shard(scratch, path, want, timeout=3600, module='Trace_Algebra', constants=None):
    cfg = path + '.cfg'
    consts = dict(constants or {})
    if want is not None:
        consts['Want'] = set(want)
    tlc.write_cfg(cfg, spec='Spec', constants=consts or None, postcondition='TraceAccepted')
    return tlc.run_tlc(module, cfg, scratch, env={'TRACE_FILE': path}, workers=1, timeout=timeout, xmx='3g')


def describe_algebra(e, case):
    """-> (distinctness key, trivial?, sample text)"""
    if e['op'] == 'law':
        key = json.dumps([e['law'], case], sort_keys=True, default=repr)
        outs = [r['tag'] if r['tag'] != 'sig' else absig.sig_str(r['ps']) for r in e['results']]
        text = '%s %s -> %s' % (e['law'], describe_case(case) if isinstance(case, dict) and 'ins' in case else json.dumps(case, default=repr), outs)
        return key, False, text
    key = json.dumps([e['op'], [i['ps'] for i in e['ins']], e['flags']], sort_keys=True)
    trivial = all(not i['ps'] for i in e['ins'])
    text = '%s -> %s' % (describe_case(case) if case else e['tid'],
                         absig.sig_str(e['out']['ps']) if e['out']['tag'] == 'sig' else e['out']['tag'])
    return key, trivial, text


_GEN = None      # set before forking; generators are closures and cannot be pickled
_DESCRIBE = None
_MODULE = ('Trace_Algebra', None)


def _shard_job(args):
    """runs in a forked worker: generate events of one shard, write them, validate with TLC"""
    shard, nshards, scratch_dir, want, keep = args
    gen = _GEN
    use_repo()
    path = os.path.join(scratch_dir, 'shard-%d.ndjson' % shard)
    import hashlib
    n = 0
    index = {}
    samples = []
    nontrivial = set()
    with open(path, 'w') as f:
        for e in gen(shard, nshards):
            case = e.pop('case', None)
            f.write(json.dumps(e, separators=(',', ':')) + '\n')
            index[e['tid']] = dict(case, out=e['out']) if isinstance(case, dict) and 'out' in e else case
            key, trivial, text = (_DESCRIBE or describe_algebra)(e, case)
            if not trivial:
                nontrivial.add(int(hashlib.blake2b(key.encode(), digest_size=8).hexdigest(), 16))
                if len(samples) < 2 and n % 97 == 13:
                    samples.append({'tid': e['tid'], 'case': text})
            n += 1
    if n == 0:
        os.unlink(path)
        return {'n': 0, 'fails': [], 'drift': [], 'samples': [], 'nontrivial': set(), 'err': None, 'states': 0, 'gen': 0, 'wall': 0}

    class S:  # minimal scratch for run_tlc
        def sub(self, name):
            d = os.path.join(scratch_dir, '%s-%d' % (name, shard))
            os.makedirs(d, exist_ok=True)
            return d
    r = validate_shard(S(), path, want, module=_MODULE[0], constants=_MODULE[1])
    err = None
    if not r.ok or r.distinct != n + 1:
        err = 'shard %d: TLC did not accept/consume the trace (%d events, %d states)\n%s' % (shard, n, r.distinct, r.out[-2500:])
    fails = [(t, c, index.get(t)) for t, c in r.lines('FAIL')]
    drift = r.lines('DRIFT')
    if not keep:
        try:
            os.unlink(path)
            os.unlink(path + '.cfg')
        except OSError:
            pass
    return {'n': n, 'fails': fails, 'drift': drift, 'samples': samples, 'nontrivial': nontrivial, 'err': err,
            'states': r.distinct, 'gen': r.generated, 'wall': r.wall}


def run_trace_leg(check, scratch, name, gen, want, nshards=None, classify=None, keep=False, module='Trace_Algebra',
                  constants=None, describe=None):
    """gen(shard, nshards) -> iterator of events.  Aggregates verdicts into `check`."""
    nshards = nshards or tlc.NCPU
    d = scratch.sub(name)
    global _GEN, _DESCRIBE, _MODULE
    _GEN = gen
    _DESCRIBE = describe
    _MODULE = (module, constants)
    jobs = [(s, nshards, d, want, keep) for s in range(nshards)]
    ctx = multiprocessing.get_context('fork')
    with ctx.Pool(min(nshards, tlc.NCPU)) as pool:
        results = pool.map(_shard_job, jobs)
    total = sum(r['n'] for r in results)
    check.cov['evaluations'] += total
    check.cov['traces_validated_against_impl'] += total
    seen = check.__dict__.setdefault('_distinct', set())
    for r in results:
        seen |= r['nontrivial']
    check.cov['distinct_nontrivial'] = len(seen)
    ndrift = 0
    for r in results:
        if r['err']:
            check.error(r['err'])
        for s in r['samples'][:1]:
            check.sample(s)
        for tid, clause, case in r['fails']:
            key = classify(tid, clause, case) if classify else clause
            if clause.startswith('DRIFT_'):
                # the reference model (a transcription of the present algorithm) predicted something else; the contract clauses
                # decide about violations, this only tells that leg (M) no longer speaks for the code
                ndrift += 1
                if ndrift <= 3:
                    check.note('drift (reference model differs from code): %s on %s' % (clause, tid))
                continue
            if clause.startswith('HARNESS_'):
                check.error('harness self-check failed: %s on %s' % (clause, tid))
                continue
            check.fail(tid, clause, case=case, key=key, desc=describe_case(case) if isinstance(case, dict) and 'ins' in case else (json.dumps(case, default=repr)[:300] if case else ''))
        ndrift += len(r['drift'])
        for t in r['drift'][:3]:
            check.note('drift (reference model differs from code, contract holds): %s' % '|'.join(t))
    check.legs['trace:' + name] = {'events': total, 'tlc_states': sum(r['states'] for r in results),
                                   'failing_verdicts': sum(len(r['fails']) for r in results), 'drift': ndrift,
                                   'tlc_wall_s': round(sum(r['wall'] for r in results), 1)}
    return results


# ---------------------------------------------------------------------------------------------------
# running one abstract case (op, parameter lists, flags) through the real code
def apply_op(op, sigs, fl, funcs=None):
    from sigtools import signatures
    if op == 'merge':
        return signatures.merge(*sigs)
    if op == 'embed':
        return signatures.embed(*sigs, use_varargs=fl['uva'], use_varkwargs=fl['uvk'])
    if op == 'mask':
        return signatures.mask(sigs[0], fl['n'], *fl['names'], hide_args=fl['ha'], hide_kwargs=fl['hk'],
                               hide_varargs=fl['hva'], hide_varkwargs=fl['hvk'])
    if op == 'forwards':
        return signatures.forwards(sigs[0], sigs[1], fl['n'], *fl['names'], hide_args=fl['ha'], hide_kwargs=fl['hk'],
                                   use_varargs=fl['uva'], use_varkwargs=fl['uvk'], partial=fl['partial'])
    raise ValueError(op)


class CaseUniverse(Universe):
    """functions built on demand from explicit parameter lists (model counterexamples, replays)"""

    def __init__(self):
        Universe.__init__(self, [], 0)


def case_event(u, tid, op, pss, fl=None, pure=False, funcs=None):
    """pss: list of abstract parameter lists; builds fresh functions f1..fn, runs op on their signatures"""
    from sigtools import signatures
    fl = flags(**(fl or {}))
    funcs = funcs or [absig.make_func(ps, name='f%d' % (k + 1)) for k, ps in enumerate(pss)]
    sigs = [signatures.signature(f) for f in funcs]
    return event(u, tid, op, sigs, lambda: apply_op(op, sigs, fl), fl=fl, pure=pure, case={'op': op, 'ins': pss, 'fl': fl})


def model_leg(check, scratch, name, constants, want, *, simulate=None, depth=None, seed=None, timeout=1800,
              workers=None, module='SigMachine', invariants=(), constraints=('Report',)):
    """runs the SigMachine model; returns the deduplicated model-level counterexamples [(clause, case)]"""
    d = scratch.sub('model-' + name)
    consts = dict(constants)
    consts['Want'] = set(want)
    if module == 'SigMachine':
        consts.setdefault('DVs', set())
        consts.setdefault('ANs', set())
    cfg = tlc.write_cfg(os.path.join(d, module + '.cfg'), spec='Spec', constants=consts,
                        invariants=invariants, constraints=constraints)
    r = tlc.run_tlc(module, cfg, scratch, workers=workers or tlc.NCPU, simulate=simulate, depth=depth, seed=seed,
                    timeout=timeout, xmx='12g')
    check.add_model_run(name, r)
    cex = {}
    for fields in r.lines('CEX'):
        clause, js = fields[0], '|'.join(fields[1:])
        try:
            case = json.loads(js)
        except ValueError:
            check.error('unparsable CEX line from model %s: %r' % (name, js[:200]))
            continue
        cex.setdefault((clause, json.dumps(case, sort_keys=True)), case)
    check.legs[name]['model_counterexamples'] = len(cex)
    check.legs[name]['mode'] = 'simulate %s' % simulate if simulate else 'exhaustive'
    return [(k[0], v) for k, v in cex.items()]


def sig_text(ps):
    return absig.sig_str(ps)


def describe_case(case):
    if not case:
        return ''
    return '%s(%s)%s' % (case.get('op', '?'), ', '.join(sig_text(ps) for ps in case.get('ins', [])),
                         '' if case.get('fl') in (None, FLAGS0) else ' ' + json.dumps(
                             {k: v for k, v in case['fl'].items() if FLAGS0.get(k) != v}, sort_keys=True))
