"""./check <ID> [--tier quick|thorough] [--replay PATH]

exit 0: property held on everything explored (KNOWN-FINDING lines possible)
exit 1: at least one `VIOLATION property=<id> replay=<path>` line
exit 2: machinery failure (TLC crash, trace not consumed, vacuity ...) -- never a verdict about sigtools
"""
import argparse
import importlib
import json
import os
import sys
import traceback

from . import common, tlc

LEVELS = {
    'C01': 'model_checking', 'C02': 'model_checking', 'C03': 'model_checking', 'C04': 'model_checking',
    'C05': 'model_checking', 'C06': 'model_checking', 'C07': 'exploration', 'C08': 'model_checking',
    'C09': 'model_checking', 'C10': 'model_checking', 'C11': 'model_checking', 'C12': 'model_checking',
    'C13': 'model_checking', 'C14': 'model_checking', 'C15': 'model_checking', 'C16': 'model_checking',
    'C17': 'model_checking', 'C18': 'model_checking', 'C19': 'model_checking', 'C20': 'model_checking',
}


def main(argv=None):
    ap = argparse.ArgumentParser()
    ap.add_argument('pid')
    ap.add_argument('--tier', default=os.environ.get('VERIF_TIER', 'quick'), choices=['quick', 'thorough'])
    ap.add_argument('--replay', default=None)
    ap.add_argument('--keep', action='store_true', help='keep the scratch directory (debugging)')
    a = ap.parse_args(argv)
    pid = a.pid.upper()
    seed = int(os.environ.get('VERIF_SEED', '0') or 0)
    try:
        mod = importlib.import_module('harness.checks.' + pid.lower())
    except ImportError:
        traceback.print_exc()
        print('no check for %s' % pid)
        return 2
    level = getattr(mod, 'LEVEL', LEVELS.get(pid, 'model_checking'))
    check = common.Check(pid, a.tier, seed, level)
    scratch = tlc.Scratch(pid.lower())
    try:
        common.use_repo()
        if a.replay:
            case = json.load(open(a.replay))
            mod.replay(check, case, scratch)
        else:
            mod.run(check, a.tier, seed, scratch)
    except tlc.MachineryError as e:
        check.error(str(e))
    except Exception:
        check.error('exception in check:\n' + traceback.format_exc())
    finally:
        if not a.keep:
            scratch.cleanup()
        else:
            print('scratch kept at', scratch.dir)
    return check.finish()


if __name__ == '__main__':
    sys.exit(main())
