"""Event generators for the algebra family (shared by C01 C02 C03 C04 C08 C09 C10 C15 C16 C19).

Every generator yields events for one shard (k % nshards == shard) so that the 16 worker processes partition the
work; all random choices come from a seeded random.Random, identical in every worker.
"""
import functools
import itertools
import random
import warnings

from . import absig, algebra
from .algebra import event, law_event, flags


def _mine(k, shard, nshards):
    return k % nshards == shard


def merge_pairs(u, U, tag='merge2', pure=False, sample=None, seed=0):
    from sigtools import signatures

    def gen(shard, nshards):
        rnd = random.Random(seed)
        k = 0
        for i in range(len(U)):
            for j in range(len(U)):
                take = sample is None or rnd.random() < sample
                if take:
                    if _mine(k, shard, nshards):
                        a, b = u.sig(i, 1), u.sig(j, 2)
                        yield event(u, '%s/%d-%d' % (tag, i, j), 'merge', [a, b], lambda: signatures.merge(a, b), pure=pure,
                                    case={'op': 'merge', 'ins': [U[i], U[j]]})
                    k += 1
    return gen


def merge_tuples(u, U, tuples, tag='merge3', pure=False):
    from sigtools import signatures

    def gen(shard, nshards):
        for t, idx in enumerate(tuples):
            if _mine(t, shard, nshards):
                sigs = [u.sig(i, s + 1) for s, i in enumerate(idx)]
                yield event(u, '%s/%s' % (tag, '-'.join(map(str, idx))), 'merge', sigs, lambda: signatures.merge(*sigs), pure=pure,
                            case={'op': 'merge', 'ins': [U[i] for i in idx]})
    return gen


def random_tuples(n, size, arity, seed):
    rnd = random.Random(seed)
    return [tuple(rnd.randrange(size) for _ in range(arity)) for _ in range(n)]


def embed_pairs(u, U, tag='embed2', pure=False, sample_other=1.0, seed=0):
    """every ordered pair with use_varargs = use_varkwargs = True, the other three flag pairs sampled"""
    from sigtools import signatures

    def gen(shard, nshards):
        rnd = random.Random(seed)
        k = 0
        for i in range(len(U)):
            for j in range(len(U)):
                for uva, uvk in ((True, True), (True, False), (False, True), (False, False)):
                    if not (uva and uvk) and sample_other < 1.0 and rnd.random() >= sample_other:
                        continue
                    if _mine(k, shard, nshards):
                        a, b = u.sig(i, 1), u.sig(j, 2)
                        fl = flags(uva=uva, uvk=uvk)
                        yield event(u, '%s/%d-%d-%d%d' % (tag, i, j, uva, uvk), 'embed', [a, b],
                                    lambda: signatures.embed(a, b, use_varargs=uva, use_varkwargs=uvk), fl=fl, pure=pure,
                                    case={'op': 'embed', 'ins': [U[i], U[j]], 'fl': fl})
                    k += 1
    return gen


def embed_tuples(u, U, tuples, tag='embed3', pure=False):
    from sigtools import signatures

    def gen(shard, nshards):
        for t, idx in enumerate(tuples):
            if _mine(t, shard, nshards):
                sigs = [u.sig(i, s + 1) for s, i in enumerate(idx)]
                yield event(u, '%s/%s' % (tag, '-'.join(map(str, idx))), 'embed', sigs, lambda: signatures.embed(*sigs), pure=pure,
                            case={'op': 'embed', 'ins': [U[i] for i in idx], 'fl': flags()})
    return gen


FOREIGN = 'zz'
HIDE_SETS = [dict(ha=a, hk=b, hva=c, hvk=d) for a in (False, True) for b in (False, True)
             for c in (False, True) for d in (False, True)]


def mask_cases(ps, maxn_extra=2, maxnames=2):
    """(n, names) for one signature: n in 0..len+extra, duplicate-free name tuples in every order"""
    npos = sum(1 for p in ps if p['k'] in ('po', 'pok'))
    pool = [p['n'] for p in ps] + [FOREIGN]
    for n in range(npos + maxn_extra + 1):
        for k in range(maxnames + 1):
            for names in itertools.permutations(pool, k):
                yield n, list(names)


def mask_events(u, U, tag='mask', pure=False, hide='none', sample_hide=1.0, seed=0, maxnames=2):
    """hide: 'none' (flag-free only), 'all' (all 16 flag sets; non-trivial ones sampled with sample_hide)"""
    from sigtools import signatures

    def gen(shard, nshards):
        rnd = random.Random(seed)
        k = 0
        for i in range(len(U)):
            for n, names in mask_cases(U[i], maxnames=maxnames):
                for h in (HIDE_SETS if hide == 'all' else HIDE_SETS[:1]):
                    if any(h.values()) and sample_hide < 1.0 and rnd.random() >= sample_hide:
                        continue
                    if _mine(k, shard, nshards):
                        s = u.sig(i, 1)
                        fl = flags(n=n, names=names, **h)
                        yield event(u, '%s/%d-%d-%s-%d%d%d%d' % (tag, i, n, '.'.join(names), h['ha'], h['hk'], h['hva'], h['hvk']),
                                    'mask', [s], lambda: algebra.apply_op('mask', [s], fl), fl=fl, pure=pure,
                                    case={'op': 'mask', 'ins': [U[i]], 'fl': fl})
                    k += 1
    return gen


def forwards_events(u, UO, ui, UI, tag='fwd', pure=False, sample=1.0, seed=0, hide=False):
    """outer in UO (star-bearing), inner in UI, n in 0..2, names <= 1, the four use flags, partial"""
    from sigtools import signatures

    def gen(shard, nshards):
        rnd = random.Random(seed)
        k = 0
        for i in range(len(UO)):
            for j in range(len(UI)):
                inner = UI[j]
                pool = [p['n'] for p in inner] + [FOREIGN]
                for n in (0, 1, 2):
                    for names in [[]] + [[x] for x in pool]:
                        for uva, uvk in ((True, True), (True, False), (False, True)):
                            for partial in (False, True):
                                for h in ([dict(ha=False, hk=False)] + ([dict(ha=True, hk=False), dict(ha=False, hk=True)] if hide else [])):
                                    if sample < 1.0 and rnd.random() >= sample:
                                        continue
                                    if _mine(k, shard, nshards):
                                        a, b = u.sig(i, 1), ui.sig(j, 2)
                                        fl = flags(n=n, names=names, uva=uva, uvk=uvk, partial=partial, **h)
                                        yield event(u, '%s/%d-%d-%d-%s-%d%d%d-%d%d' % (tag, i, j, n, '.'.join(names), uva, uvk, partial, h['ha'], h['hk']),
                                                    'forwards', [a, b], lambda: algebra.apply_op('forwards', [a, b], fl), fl=fl, pure=pure,
                                                    case={'op': 'forwards', 'ins': [UO[i], UI[j]], 'fl': fl})
                                    k += 1
    return gen


def chain(*gens):
    def gen(shard, nshards):
        for g in gens:
            for e in g(shard, nshards):
                yield e
    return gen


def cex_events(cu, op, cex, tag='modelcex', pure=False):
    """model-leg counterexamples replayed into the real code"""
    def gen(shard, nshards):
        for t, (clause, case) in enumerate(cex):
            if _mine(t, shard, nshards):
                fl = {k: v for k, v in case.get('fl', {}).items() if k in algebra.FLAGS0}
                yield algebra.case_event(cu, '%s/%d' % (tag, t), op, case['ins'], fl, pure=pure)
    return gen


def has_star(ps):
    return any(p['k'] in ('var', 'vkw') for p in ps)
