#!/usr/bin/env python3
"""Records the outcome of tools/try_seeded.py runs in seeded/<id>/meta.json ("detected_by") and regenerates seeded/INDEX.md.
usage: tools/record_matrix.py <results.txt> ..."""
import json, os, re, sys
HERE = os.path.dirname(os.path.dirname(os.path.abspath(__file__)))
for path in sys.argv[1:]:
    for l in open(path):
        m = re.match(r'(\S+) (C\d\d) rc=(\d+) violations=(\d+) clauses=(\S*)', l.strip())
        if not m:
            continue
        d, pid, rc, nv, clauses = m.groups()
        name = os.path.basename(d.rstrip('/'))
        mp = os.path.join(HERE, 'seeded', name, 'meta.json')
        if not os.path.exists(mp):
            continue
        meta = json.load(open(mp))
        meta.setdefault('detected_by', {})[pid] = {'exit': int(rc), 'clauses': [c for c in clauses.split(',') if c], 'tier': 'quick'}
        json.dump(meta, open(mp, 'w'), indent=1)
rows = []
for name in sorted(os.listdir(os.path.join(HERE, 'seeded'))):
    mp = os.path.join(HERE, 'seeded', name, 'meta.json')
    if not os.path.exists(mp):
        continue
    meta = json.load(open(mp))
    det = meta.get('detected_by', {})
    caught = [('%s: %s' % (pid, ', '.join(v['clauses'][:3]))) for pid, v in sorted(det.items()) if v['exit'] == 1]
    missed = [pid for pid, v in sorted(det.items()) if v['exit'] == 0]
    rows.append('| %s | %s | %s | %s | %s |' % (name, meta.get('property'), (meta.get('summary') or '').replace('|', '/').replace('\n', ' ')[:160],
                                            '; '.join(caught) or '-', ', '.join(missed) or '-'))
with open(os.path.join(HERE, 'seeded', 'INDEX.md'), 'w') as f:
    f.write('# Seeded changes\n\nEach directory holds `patch.diff` (applies to /repo HEAD), `demo.py` (exit 0 without the change, 1 with it) and `meta.json` (what it breaks, what it needs, '
            'what was run, who wrote it, my own confirmation, which checks detect it).  All of them compile and pass the pinned suite.  Detection was measured with '
            '`tools/try_seeded.py` (quick tier, the change applied in a scratch worktree that the checks import sigtools from; `tools/try_mutant.sh` does the same in /repo itself).\n\n'
            '| id | property | change | detected by (check: clauses) | run but not detected by |\n|---|---|---|---|---|\n' + '\n'.join(rows) + '\n')
print(len(rows), 'rows')
