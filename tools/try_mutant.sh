#!/bin/sh
# usage: tools/try_mutant.sh <patch.diff> <tier> <ID> [<ID> ...]
# applies a seeded change to /repo, runs the named checks, and ALWAYS restores /repo afterwards.
# prints one line per check: <ID> rc=<exit code> <first VIOLATION line or summary>
patch="$1"; tier="$2"; shift 2
cd /repo || exit 2
if ! git diff --quiet; then echo "/repo has uncommitted changes; refusing"; exit 2; fi
git apply "$patch" || { echo "patch does not apply"; exit 2; }
trap 'git -C /repo checkout -- . ' EXIT INT TERM
cd /verif
for id in "$@"; do
  out=$(./check "$id" --tier "$tier" 2>&1); rc=$?
  echo "$id rc=$rc $(echo "$out" | grep -m1 '^VIOLATION' | cut -c1-220) $(echo "$out" | grep -c '^VIOLATION') violation lines; $(echo "$out" | grep -m1 'MACHINERY' | cut -c1-200)"
done
