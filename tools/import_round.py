#!/usr/bin/env python3
"""Imports a sub-agent's change into seeded/: copies <src>/{patch.diff,demo.py,meta.json} to seeded/<id>/, confirms it myself in a scratch worktree
(tools/confirm_seeded.py) and records the confirmation; unconfirmed ones are removed again.
usage: tools/import_round.py <src dir>:<id> ...        e.g. /tmp/mut3/C06/mutant/a:C06e"""
import json, os, shutil, subprocess, sys
HERE = os.path.dirname(os.path.dirname(os.path.abspath(__file__)))
AUTHOR = ('independent sub-agent (round of import; third or fourth: given only the property text, a scratch worktree and the one-paragraph summaries of the earlier '
          'changes to avoid repeating them)')
dirs = []
for a in sys.argv[1:]:
    src, _, name = a.partition(':')
    dst = os.path.join(HERE, 'seeded', name)
    if not os.path.exists(os.path.join(src, 'patch.diff')):
        print('no patch in', src)
        continue
    os.makedirs(dst, exist_ok=True)
    for f in ('patch.diff', 'demo.py', 'meta.json'):
        shutil.copy(os.path.join(src, f), os.path.join(dst, f))
    # the demonstrations refer to their own location only through the command line; nothing to rewrite
    dirs.append(dst)
out = subprocess.run([os.path.join(HERE, 'tools', 'confirm_seeded.py')] + dirs, capture_output=True, text=True).stdout
for l in out.splitlines():
    try:
        r = json.loads(l)
    except Exception:
        continue
    d = r['dir']
    if not r.get('confirmed'):
        print('NOT CONFIRMED', json.dumps(r))
        shutil.rmtree(d)
        continue
    mp = os.path.join(d, 'meta.json')
    meta = json.load(open(mp))
    meta['author'] = AUTHOR
    meta['confirmed_by_me'] = {'on': 'scratch worktree of /repo HEAD (tools/confirm_seeded.py)', 'patch_applies': True, 'pinned_suite': r['suite'],
                               'demo_exit_with_change': r['demo_with'], 'demo_exit_without_change': r['demo_without']}
    json.dump(meta, open(mp, 'w'), indent=1)
    print('confirmed', os.path.basename(d))
