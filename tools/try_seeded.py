#!/usr/bin/env python3
"""Runs checks against seeded changes WITHOUT touching /repo: each change is applied in its own scratch worktree of /repo
(under /tmp, removed afterwards) and the checks import sigtools from there (SIGTOOLS_REPO), writing evidence/replays to a scratch
directory (VERIF_OUT).  usage: tools/try_seeded.py [--tier quick] [--jobs N] <dir-with-patch.diff>[:ID,ID...] ...
Prints one line per (change, check): rc and the first VIOLATION line.  (The official procedure -- git apply in /repo, run, checkout --
is tools/try_mutant.sh; this one exists so that several changes can be tried in parallel while /repo stays untouched.)"""
import json, os, shutil, subprocess, sys, tempfile
from concurrent.futures import ThreadPoolExecutor

VERIF = os.path.dirname(os.path.dirname(os.path.abspath(__file__)))


def one(arg, tier):
    d, _, ids = arg.partition(':')
    d = os.path.abspath(d)
    meta = {}
    if os.path.exists(os.path.join(d, 'meta.json')):
        meta = json.load(open(os.path.join(d, 'meta.json')))
    ids = ids.split(',') if ids else [meta.get('property')]
    wt = tempfile.mkdtemp(prefix='seeded-wt-')
    out = tempfile.mkdtemp(prefix='seeded-out-')
    lines = []
    try:
        os.rmdir(wt)
        subprocess.run(['git', '-C', '/repo', 'worktree', 'add', '--detach', wt, 'HEAD'], check=True, capture_output=True)
        r = subprocess.run(['git', '-C', wt, 'apply', os.path.join(d, 'patch.diff')], capture_output=True, text=True)
        if r.returncode:
            return ['%s: patch does not apply: %s' % (d, r.stderr.strip()[:200])]
        for pid in ids:
            env = dict(os.environ, SIGTOOLS_REPO=wt, VERIF_OUT=out)
            p = subprocess.run([os.path.join(VERIF, 'check'), pid, '--tier', tier], env=env, capture_output=True, text=True)
            viol = [l for l in p.stdout.splitlines() if l.startswith('VIOLATION')]
            mach = [l for l in p.stdout.splitlines() if l.startswith('MACHINERY')]
            clauses = sorted({w.split('=', 1)[1] for l in viol for w in l.split() if w.startswith('clause=')})
            lines.append('%s %s rc=%d violations=%d clauses=%s %s' % (d, pid, p.returncode, len(viol), ','.join(clauses)[:200], (mach[0][:300] if mach else '')))
    finally:
        subprocess.run(['git', '-C', '/repo', 'worktree', 'remove', '--force', wt], capture_output=True)
        shutil.rmtree(wt, ignore_errors=True)
        shutil.rmtree(out, ignore_errors=True)
    return lines


def main():
    args = sys.argv[1:]
    tier, jobs = 'quick', 2
    while args and args[0].startswith('--'):
        if args[0] == '--tier':
            tier = args[1]
        elif args[0] == '--jobs':
            jobs = int(args[1])
        args = args[2:]
    with ThreadPoolExecutor(jobs) as ex:
        for lines in ex.map(lambda a: one(a, tier), args):
            for l in lines:
                print(l, flush=True)


if __name__ == '__main__':
    main()
