#!/usr/bin/env python3
"""Regenerates /verif/MANIFEST.json from the table below (single place to edit)."""
import json
import os

HERE = os.path.dirname(os.path.dirname(os.path.abspath(__file__)))
ALG = 'spec/SigMachine.tla spec/Trace_Algebra.tla spec/SigVerdict.tla spec/SigContracts.tla spec/SigAlgebra.tla spec/PyBind.tla spec/SigUniverse.tla harness/algebra.py harness/alggen.py'
TRUST = ('Trusted: TLC, the CommunityModules Json reader, the projection harness/absig.py. PyBind!Accepts/Bind is not trusted: check C20 validates it '
         'against really calling CPython. Exhaustive only within the stated universe (see evidence coverage.rule); call shapes per event are complete, not sampled.')
TECH = 'TLA+ model checked by TLC + TLC trace validation of real-code events (conformance) + replay of model counterexamples into the code'

CHECKS = {
 'C01': ('model_checking', 'tlc-algebra', 'TLC explores the merge model (SigMachine: transcription of _Merger and of the n-ary bucket fold) exhaustively over all pairs of the bounded universe and by simulation at arity 3/4 with the soundness contract as invariant; the same contract is evaluated by TLC on traces of the real signatures.merge over every pair, sampled triples and every model counterexample.', '§5 C01'),
 'C02': ('model_checking', 'tlc-algebra', 'TLC explores the embed model over all (outer, inner) pairs x the four use_* flag pairs with soundness / exactness / raise-only-when as invariants; the same contracts, the fold law and neutrality of a bare (*args, **kwargs) are evaluated by TLC on events of the real signatures.embed.', '§5 C02'),
 'C03': ('model_checking', 'tlc-algebra', 'TLC explores the mask model over every signature x n x name tuples in every order x hide flags with exactness / raise-iff / hide-soundness as invariants; the same contracts and the laws (order independence over all permutations, mask(s,0)=s, composition, hide only removes) are evaluated by TLC on events of the real signatures.mask.', '§5 C03'),
 'C04': ('model_checking', 'tlc-algebra + tlc-exec', '(a) forwards = embed o mask as an equality of two real results and the composite soundness contract, as TLC invariant on the model and evaluated on real forwards outputs; (b) generated wrappers (8 placements: function, emulate, method, super, apply_forwards_to_super, bound/unbound) decorated as declared, retrieved through the real sigtools and really called on every shape of the call set; TLC (Trace_Exec) checks accepted => runs, rejected => raises where exactness is claimed, all retrieval routes agree, and that the spec\'s execution semantics (Wrappers!ExecOutcome) predicted every real outcome.', '§5 C04'),
 'C05': ('model_checking', 'tlc-autofwd + tlc-exec', 'spec/AutoFwd.tla is a state machine whose behaviours are programs: the walker\'s namespace machine (transcribed from CallListerVisitor) next to a runtime ghost, over a 164-statement alphabet (forwarding calls in 6 placements x 16 star-argument forms, taints of 13 forms in 5 placements, decoys); TLC explores all programs up to the bound (invariants TypeOK, Monotone, C05_Model). Every program is rendered, analysed by the real walker, retrieved through sigtools.signature and executed with its runtime ghost observed; TLC (Trace_AutoFwd) re-runs the walker model on each program and checks on the real observations: an accepted non-colliding call never raises a binding TypeError, a star that was not pristine when a call ran is not advertised, the model\'s call list equals the real walker\'s (drift), the model\'s ghost equals the observation. Plus the one-call grid over the signature universe x 8 callee resolution routes (Trace_Exec).', '§5 C05'),
 'C06': ('model_checking', 'tlc-autofwd + tlc-exec', 'Same program space as C05. For every program without taint statements and every grid point the discovered signature AND provenance are compared by TLC with the explicit declaration computed through the public algebra only (forwards per written call, merged), with the plain signature in the stated fallback cases, and across three syntactic variants of each program (statement contexts, unrelated statements, local names) and wrap-only decorators.', '§5 C06'),
 'C08': ('model_checking', 'tlc-algebra', 'Provenance well-formedness (keys exact, non-empty, duplicate-free, depths present and ordered, exactly the declaring inputs) is an invariant of every SigMachine result over universes with equal and different star names, and is evaluated by TLC on every result the real merge/embed/mask/forwards return.', '§5 C08'),
 'C09': ('model_checking', 'tlc-algebra', 'Exactness and raise-iff of merge on name-aligned role-consistent inputs as TLC invariants over all pairs, and evaluated on real merge outputs; the identity, idempotence, neutral-element, sort/apply and fold laws are checked by TLC as equalities between two REAL results logged in one event.', '§5 C09'),
 'C10': ('model_checking', 'tlc-algebra', 'The metadata rules (optional only if all optional; common default else None; agreed annotation else none; kinds only restrict; order; outer defaults dropped only before a required inner positional; partial keywords) as TLC invariants over a universe extended with distinct default and annotation ids, and evaluated by TLC on real results computed with real default/annotation objects.', '§5 C10'),
 'C11': ('model_checking', 'tlc-algebra', 'Annotation ids in the abstract signatures are DENOTATIONS (the object an annotation denotes in the globals of the function that defined it): inputs by construction, outputs through source_value() of the real results. With that projection the metadata contract (agreed annotation else none; survivors keep theirs) is an invariant of SigMachine over the metadata universe and is evaluated by TLC on real merge / embed / mask / forwards results computed on functions compiled with and without the future flag, with shared and per-function globals binding the same names to different objects; plus evaluated() = source_value(), postponed-then-evaluated = eager twin, and annotate values verbatim, as equalities between two real results.', '§5 C11'),
 'C12': ('model_checking', 'tlc-modifiers', 'spec/Modifiers.tla transcribes _PokTranslator._prepare (advertised signature, ValueError conditions, kwopos table), the start=/end=/exceptions= name-set computations and the args.insert routing loop of __call__; TLC checks over all base functions x selections x calls that _prepare raises exactly on inadmissible selections, advertises the rewrite the property demands, and that routing + binding to the original function delivers exactly what binding to the advertised signature prescribes. The same space is run on the real decorators (functions and methods on instances, four retrieval routes, every shape of the complete call set with distinguishable values) and TLC (Trace_Modifiers) evaluates admissibility, rewrite, accepts-exactly, full delivery map and TypeError-on-rejection on each event.', '§5 C12'),
 'C13': ('model_checking', 'tlc-wrap', 'spec/WrapMachine.tla: stacks of wrapper functions around a base function; the reported signature is the fold of the Forwards model and the invariant ChainSound says every non-colliding call it accepts passes the whole chain of CPython bindings (Wrappers!ChainOutcome), checked by TLC over simulated stacks of depth <= 3. Real stacks built with wrappers.decorator / wrappers.wrapper_decorator (function, method, staticmethod) and wrappers.Combination are retrieved through four routes and really called on the call set next to the hand-written composition; TLC (Trace_Wrap) checks result-equality for every call, soundness of every reported signature, method binding, wrappers() listing, and (drift) that ChainOutcome predicted which calls run.', '§5 C13'),
 'C14': ('model_checking', 'tlc-obj', 'spec/ObjModel.tla states the equality the property demands over abstract objects (family, upgraded or plain, plain-data id, upgraded-annotation id) and TLC checks it reflexive, symmetric, hash-consistent and twin-respecting over the menagerie (and shows it is not transitive). Real menageries (upgraded signatures through three routes, merge results, postponed annotations, plain twins, one-field variants, parameters, foreign objects) are compared in all ordered pairs with == / != / hash, and str / bind / bind_partial / replace are exercised next to plain twins; TLC (Trace_Obj) evaluates totality, symmetry, negation, reflexivity, agreement with SpecEq, hash laws, drop-in behaviour and replace semantics on every event.', '§5 C14'),
 'C15': ('model_checking', 'tlc-algebra', 'ValidSig / upgraded / +depths of every model result as TLC invariants; on the real code every outcome over role-inconsistent inputs, foreign and duplicate names, n up to len+2 and all flags is classified by TLC (signature / IncompatibleSignatures / ValueError / other), and each sampled case is re-run with plain inspect inputs (same parameters + DeprecationWarning).', '§5 C15'),
 'C16': ('model_checking', 'tlc-algebra + tlc-retrieval', 'Algebra purity: TLC compares deep projections of all inputs before/after every real call and the identities of all provenance containers of inputs and result. Crash points: see level_note.', '§5 C16'),
 'C18': ('model_checking', 'tlc-history', 'spec/ObjHist.tla models the caller\'s references, the weak-keyed descriptor cache and reclamation (invariants Reclaimed, NoStaleEntry; the pinned caching mode violates Reclaimed in two steps) and generates every history of use; spec/ModOrder.tla models stacked kwoargs/posoargs/autokwoargs applications (invariant: the state is a function of the set of steps, whatever admissible order). Every generated history is executed on fresh classes for 8 kinds of descriptor with each result compared to a fresh twin, calls checked to reach the right instance and dropped instances observed through weak references; every permutation of sampled modifier applications is really applied and the admissible ones compared on every route and on the complete call set; TLC (Trace_Hist) walks each history with ObjHist\'s state.', '§5 C18'),
 'C19': ('model_checking', 'tlc-algebra', 'TLC explores mask-in-partial-mode over universe x bindings with exactness against PartialAccepts as invariant; on the real code every partial object is really called on the complete call set and TLC checks the reported signature accepts exactly what the partial accepted, plus the structural and provenance claims.', '§5 C19'),
 'C20': ('model_checking', 'tlc-pybind', 'Three-way agreement CPython / support.bind_callsig / PyBind!Bind on acceptance and full delivery map for every universe signature x every shape of the complete call set with distinguishable values, evaluated by TLC; sort_callsigs and make_up_callsigs clauses; this check owns the validation of the binding oracle.', '§5 C20'),
}
NOTES = {
 'C16': TRUST + ' Part (b) (crash points) is under construction; until it lands only the algebra half is decided.',
}
PENDING = {
 'C07': 'check under construction (Retrieval model + corpus)',
 'C17': 'check under construction (concurrent Retrieval model + line-level scheduler)',
}


def main():
    props = [json.loads(l) for l in open(os.path.join(HERE, 'properties.jsonl'))]
    checks = []
    for pid, (cat, eng, text, ref) in sorted(CHECKS.items()):
        checks.append({
            'property_id': pid, 'quick_cmd': './check %s --tier quick' % pid, 'thorough_cmd': './check %s --tier thorough' % pid,
            'evidence_file': 'evidence/%s.json' % pid, 'replay_cmd_template': './check %s --replay {path}' % pid, 'engine': eng,
            'level_claimed': {'category': cat, 'text': text, 'design_ref': 'DESIGN.md ' + ref},
            'level_note': NOTES.get(pid, TRUST), 'technique': TECH})
    na = [{'property_id': p['id'], 'reason': 'not claimed yet: ' + PENDING.get(p['id'], 'check under construction')}
          for p in props if p['id'] not in CHECKS]
    hooks_commits = []
    hc = os.path.join(HERE, 'hooks_commits.txt')
    if os.path.exists(hc):
        hooks_commits = [l.split()[0] for l in open(hc) if l.strip()]
    m = {
        'version': 1, 'setup_cmd': './setup.sh',
        'hooks': {'guard': 'SIGTOOLS_VERIF', 'enable': 'environment variable SIGTOOLS_VERIF=1 (set by ./check); sigtools is pure Python and is imported from /repo\'s working tree, nothing is built',
                  'baseline_off_cmd': 'cd /repo && env -u SIGTOOLS_VERIF /venv/bin/python -m pytest -ra -q -p no:cacheprovider --timeout=900 --continue-on-collection-errors',
                  'source_commits': hooks_commits, 'add_only': True},
        'engines': [
            {'name': 'tlc-algebra', 'path': ALG, 'serves_properties': [p for p, v in CHECKS.items() if 'tlc-algebra' in v[1]],
             'kind_free_text': 'TLA+ specification of the signature algebra (reference model + relational contracts) checked by TLC; TLC trace validation of events recorded from the real code; replay of model counterexamples into the real code'},
            {'name': 'tlc-autofwd', 'path': 'spec/AutoFwdCore.tla spec/AutoFwd.tla spec/Trace_AutoFwd.tla harness/autofwd.py harness/checks/c05.py', 'serves_properties': ['C05', 'C06'],
             'kind_free_text': 'TLA+ model of the AST walker (namespace machine + runtime ghost) whose behaviours are programs; every behaviour rendered to Python, analysed by the real walker, executed, and validated by TLC'},
            {'name': 'tlc-modifiers', 'path': 'spec/ModifiersCore.tla spec/Modifiers.tla spec/Trace_Modifiers.tla harness/modif.py harness/checks/c12.py', 'serves_properties': ['C12'],
             'kind_free_text': 'TLA+ transcription of the modifiers decorators (prepare / routing) with the C12 contract; real decorated functions called on the complete call set and validated by TLC'},
            {'name': 'tlc-wrap', 'path': 'spec/Wrappers.tla spec/WrapMachine.tla spec/Trace_Wrap.tla harness/wrapstack.py harness/checks/c13.py', 'serves_properties': ['C13'],
             'kind_free_text': 'TLA+ model of decorator stacks (chain of bindings, fold of forwards); real stacks and Combinations executed next to the hand-written composition and validated by TLC'},
            {'name': 'tlc-history', 'path': 'spec/ObjHist.tla spec/ModOrder.tla spec/Trace_Hist.tla harness/hist.py harness/checks/c18.py', 'serves_properties': ['C18'],
             'kind_free_text': 'TLA+ model of references / descriptor cache / reclamation whose behaviours are histories of use, and of stacked modifier applications; histories replayed on real objects against fresh twins and validated by TLC'},
            {'name': 'tlc-obj', 'path': 'spec/ObjModel.tla spec/Trace_Obj.tla harness/checks/c14.py', 'serves_properties': ['C14'],
             'kind_free_text': 'TLA+ statement of the demanded equality/hash laws over a menagerie; all ordered pairs of real objects compared and validated by TLC'},
            {'name': 'tlc-exec', 'path': 'spec/Wrappers.tla spec/Trace_Exec.tla harness/progs.py', 'serves_properties': ['C04', 'C05', 'C06'],
             'kind_free_text': 'execution semantics of forwarding wrappers in TLA+; generated programs really executed and their outcomes validated by TLC'},
            {'name': 'tlc-pybind', 'path': 'spec/PyBind.tla spec/PyBindMachine.tla spec/Trace_PyBind.tla harness/checks/c20.py', 'serves_properties': ['C20'],
             'kind_free_text': 'the CPython binding oracle in TLA+, validated by TLC against really calling generated functions'},
        ],
        'checks': checks, 'not_applicable': na,
        'notes': 'All checks: ./check <ID> --tier quick|thorough [--replay PATH]. Exit 0 held (KNOWN-FINDING lines possible) / 1 VIOLATION / 2 machinery failure. known_findings.json lists findings (known) and repaired defects (fixed).'}
    json.dump(m, open(os.path.join(HERE, 'MANIFEST.json'), 'w'), indent=1)
    print('MANIFEST.json: %d checks, %d not_applicable' % (len(checks), len(na)))


if __name__ == '__main__':
    main()
