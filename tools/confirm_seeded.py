#!/usr/bin/env python3
"""Confirms seeded changes myself, each in its own scratch worktree of /repo HEAD (removed afterwards):
 (1) the patch applies, (2) the pinned suite still passes with it (294 passed, the 10 baseline collection errors),
 (3) the demonstration fails with it, (4) the demonstration passes without it.
usage: tools/confirm_seeded.py <dir with patch.diff demo.py meta.json> ...   -> one JSON line per change"""
import json, os, re, shutil, subprocess, sys, tempfile
from concurrent.futures import ThreadPoolExecutor


def sh(cmd, cwd=None, env=None, timeout=900):
    p = subprocess.run(cmd, shell=True, cwd=cwd, env=env, capture_output=True, text=True, timeout=timeout)
    return p.returncode, (p.stdout + p.stderr)


def confirm(d):
    d = os.path.abspath(d)
    wt = tempfile.mkdtemp(prefix='confirm-wt-')
    os.rmdir(wt)
    res = {'dir': d}
    try:
        sh('git -C /repo worktree add --detach %s HEAD' % wt)
        env = dict(os.environ, PYTHONPATH=wt)
        env.pop('SIGTOOLS_VERIF', None)
        rc0, out0 = sh('/venv/bin/python %s/demo.py' % d, cwd=wt, env=env, timeout=600)
        res['demo_without'] = rc0
        rc, out = sh('git apply %s/patch.diff' % d, cwd=wt)
        res['applies'] = rc == 0
        if rc:
            res['apply_error'] = out.strip()[:200]
            return res
        rc, out = sh('/venv/bin/python -m pytest -q -p no:cacheprovider --timeout=900 --continue-on-collection-errors 2>&1 | tail -3', cwd=wt, env=env)
        m = re.search(r'(\d+) passed', out)
        res['suite'] = out.strip().splitlines()[-1][:120]
        res['suite_ok'] = bool(m) and int(m.group(1)) == 294 and 'failed' not in out.splitlines()[-1] and '10 errors' in out
        rc1, out1 = sh('/venv/bin/python %s/demo.py' % d, cwd=wt, env=env, timeout=600)
        res['demo_with'] = rc1
        res['confirmed'] = res['suite_ok'] and rc1 != 0 and rc0 == 0
    finally:
        sh('git -C /repo worktree remove --force %s' % wt)
        shutil.rmtree(wt, ignore_errors=True)
    return res


if __name__ == '__main__':
    with ThreadPoolExecutor(4) as ex:
        for r in ex.map(confirm, sys.argv[1:]):
            print(json.dumps(r), flush=True)
