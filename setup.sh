#!/bin/sh
# Offline setup: nothing is downloaded or compiled.  Verifies that the tools the checks need are present and that
# every specification module parses (SANY), so that a broken installation shows up here and not as a check failure.
set -e
cd "$(dirname "$0")"
test -x /venv/bin/python
test -f /opt/veriftools/tla/tla2tools.jar
java -version >/dev/null 2>&1
chmod +x check
for m in spec/*.tla; do
  ( cd spec && java -cp /opt/veriftools/tla/tla2tools.jar:/opt/veriftools/tla/CommunityModules-deps.jar tla2sany.SANY "$(basename "$m")" >/tmp/sany.$$ 2>&1 ) \
    || { cat /tmp/sany.$$; rm -f /tmp/sany.$$; echo "SANY failed on $m"; exit 1; }
  if grep -q "^\*\*\* Errors\|Fatal errors\|Could not parse" /tmp/sany.$$; then cat /tmp/sany.$$; rm -f /tmp/sany.$$; echo "SANY failed on $m"; exit 1; fi
done
rm -f /tmp/sany.$$
mkdir -p evidence
echo "setup ok"
